// Package engine holds the shared machinery of the s3db model-checking harness:
// the fake object store, the SQL world driver, the worker pool, the explorers
// and the evidence / findings plumbing.
package engine

import (
	"bytes"
	"context"
	"crypto/sha256"
	"encoding/hex"
	"fmt"
	"io"
	"os"
	"sort"
	"strings"
	"sync"
	"time"

	"github.com/aws/aws-sdk-go/aws"
	"github.com/aws/aws-sdk-go/aws/awserr"
	"github.com/aws/aws-sdk-go/aws/request"
	"github.com/aws/aws-sdk-go/service/s3"
)

// Req is one object-store request as seen by the fake store.
type Req struct {
	Seq     int    `json:"seq"`
	Client  string `json:"client"`
	Op      string `json:"op"` // LIST GET PUT DELETE
	Key     string `json:"key"`
	Sum     string `json:"sum,omitempty"` // sha256 prefix of a PUT body
	Len     int    `json:"len,omitempty"`
	Outcome string `json:"outcome"` // ok, nosuchkey, fail-before, apply-then-fail, ctx
	body    []byte
}

func (r Req) String() string {
	s := fmt.Sprintf("%s:%s %s", r.Client, r.Op, r.Key)
	if r.Outcome != "ok" {
		s += " [" + r.Outcome + "]"
	}
	return s
}

// Mutating reports whether the request (if applied) changes the bucket.
func (r Req) Mutating() bool { return r.Op == "PUT" || r.Op == "DELETE" }

// FaultMode says what an injected fault does to a request.
type FaultMode int

const (
	FaultNone      FaultMode = iota
	FailBefore               // request has no effect, client gets an error
	ApplyThenFail            // request takes effect, client gets an error
	FaultNoSuchKey           // GET answers "no such object" although it exists
	// FaultHang: the request gets no answer until the caller's own context is done (its deadline expires), then
	// fails the way the AWS SDK reports a cancelled request. Has no effect on the store.
	FaultHang
)

// Bucket is an in-memory object store with S3's current consistency model:
// atomic objects, strong read-after-write, strongly consistent sorted LIST.
type Bucket struct {
	mu      sync.Mutex
	Objs    map[string][]byte
	Log     []Req
	first   map[string]string // key -> sha of first body ever PUT under that name
	Broken  []string          // store-level invariant violations (immutability, read-only)
	Budget  int               // max requests before the run is declared a livelock (0 = none)
	NoLog   bool
	reqs    int
	OnBreak func(string)
}

func NewBucket() *Bucket {
	return &Bucket{Objs: map[string][]byte{}, first: map[string]string{}, Budget: 200000}
}

func sum(b []byte) string {
	h := sha256.Sum256(b)
	return hex.EncodeToString(h[:8])
}

// Snapshot returns a deep copy of the object map.
func (b *Bucket) Snapshot() map[string][]byte {
	b.mu.Lock()
	defer b.mu.Unlock()
	m := make(map[string][]byte, len(b.Objs))
	for k, v := range b.Objs {
		m[k] = v // bodies are never mutated in place
	}
	return m
}

// Restore replaces the contents (the request log and immutability record are kept).
func (b *Bucket) Restore(m map[string][]byte) {
	b.mu.Lock()
	defer b.mu.Unlock()
	b.Objs = make(map[string][]byte, len(m))
	for k, v := range m {
		b.Objs[k] = v
	}
}

// NewBucketFrom makes a fresh bucket holding a copy of m.
func NewBucketFrom(m map[string][]byte) *Bucket {
	b := NewBucket()
	for k, v := range m {
		b.Objs[k] = v
		b.first[k] = sum(v)
	}
	return b
}

// Keys lists all keys with the prefix, sorted.
func (b *Bucket) Keys(prefix string) []string {
	b.mu.Lock()
	defer b.mu.Unlock()
	var ks []string
	for k := range b.Objs {
		if strings.HasPrefix(k, prefix) {
			ks = append(ks, k)
		}
	}
	sort.Strings(ks)
	return ks
}

func (b *Bucket) Get(key string) ([]byte, bool) {
	b.mu.Lock()
	defer b.mu.Unlock()
	v, ok := b.Objs[key]
	return v, ok
}

func (b *Bucket) Put(key string, v []byte) {
	b.mu.Lock()
	defer b.mu.Unlock()
	b.Objs[key] = v
}

func (b *Bucket) Del(key string) {
	b.mu.Lock()
	defer b.mu.Unlock()
	delete(b.Objs, key)
}

// Hash is a digest of the full contents.
func (b *Bucket) Hash() string {
	b.mu.Lock()
	defer b.mu.Unlock()
	return HashObjs(b.Objs)
}

func HashObjs(m map[string][]byte) string {
	ks := make([]string, 0, len(m))
	for k := range m {
		ks = append(ks, k)
	}
	sort.Strings(ks)
	h := sha256.New()
	for _, k := range ks {
		fmt.Fprintf(h, "%d:%s:%d:", len(k), k, len(m[k]))
		h.Write(m[k])
	}
	return hex.EncodeToString(h.Sum(nil)[:12])
}

// LogLen returns the current length of the request log.
func (b *Bucket) LogLen() int {
	b.mu.Lock()
	defer b.mu.Unlock()
	return len(b.Log)
}

// LogSince returns a copy of the log entries from index i on.
func (b *Bucket) LogSince(i int) []Req {
	b.mu.Lock()
	defer b.mu.Unlock()
	return append([]Req{}, b.Log[i:]...)
}

func (b *Bucket) broke(msg string) {
	b.Broken = append(b.Broken, msg)
	if b.OnBreak != nil {
		b.OnBreak(msg)
	}
}

// Handle is one client's view of a bucket; it implements kv.S3Interface.
type Handle struct {
	B        *Bucket
	Name     string
	ReadOnly bool // flag for the store-level invariant "never PUT/DELETE"
	// Fault decides the fate of a request (called with the bucket lock NOT held).
	Fault func(r *Req) (FaultMode, error)
	// Point is called before every request (scheduler hook); lock not held.
	Point func(r *Req)
	// Dead makes every request fail (the process has crashed).
	Dead bool
	// Unbounded lists the requests that were given no answer (FaultHang) while their context could never
	// end (no deadline, no cancellation): the caller would have blocked forever. Guarded by B.mu.
	Unbounded []string
}

// HungForever returns the requests recorded in Unbounded.
func (h *Handle) HungForever() []string {
	h.B.mu.Lock()
	defer h.B.mu.Unlock()
	return append([]string{}, h.Unbounded...)
}

func (b *Bucket) Handle(name string) *Handle { return &Handle{B: b, Name: name} }

func noSuchKey() error {
	return awserr.New(s3.ErrCodeNoSuchKey, "The specified key does not exist.", nil)
}

// ErrTransport is the plain transport-level error injected by fault plans.
var ErrTransport = fmt.Errorf("verif: injected transport error")

// ErrAWS500 is an AWS-style service error that is not NoSuchKey.
func ErrAWS500() error { return awserr.New("InternalError", "verif: injected 500", nil) }

// ErrCtx is what the SDK returns when the request context has expired.
func ErrCtx() error {
	return awserr.New(request.CanceledErrorCode, "request context canceled", context.DeadlineExceeded)
}

// ErrCrashed is returned for every request after a simulated crash.
var ErrCrashed = fmt.Errorf("verif: process crashed")

func (h *Handle) begin(ctx aws.Context, op, key string, body []byte) (*Req, FaultMode, error) {
	r := &Req{Client: h.Name, Op: op, Key: key, body: body}
	if body != nil {
		r.Sum, r.Len = sum(body), len(body)
	}
	if h.Point != nil {
		h.Point(r)
	}
	if h.Dead {
		r.Outcome = "dead"
		h.record(r)
		return r, FailBefore, ErrCrashed
	}
	if err := ctx.Err(); err != nil {
		r.Outcome = "ctx"
		h.record(r)
		return r, FailBefore, awserr.New(request.CanceledErrorCode, "request context canceled", err)
	}
	if h.Fault != nil {
		mode, err := h.Fault(r)
		if mode == FaultHang {
			if ctx.Done() == nil {
				// a context that can never end: the real client would wait forever. Record it and answer at once.
				h.B.mu.Lock()
				h.Unbounded = append(h.Unbounded, r.String())
				h.B.mu.Unlock()
				r.Outcome = "ctx"
				h.record(r)
				return r, FailBefore, awserr.New(request.CanceledErrorCode, "request context canceled", context.DeadlineExceeded)
			}
			select {
			case <-ctx.Done():
			case <-time.After(60 * time.Second): // no deadline set: the harness made a mistake; do not block forever
			}
			r.Outcome = "ctx"
			h.record(r)
			return r, FailBefore, awserr.New(request.CanceledErrorCode, "request context canceled", context.DeadlineExceeded)
		}
		if mode != FaultNone {
			return r, mode, err
		}
	}
	return r, FaultNone, nil
}

func (h *Handle) record(r *Req) {
	b := h.B
	b.mu.Lock()
	defer b.mu.Unlock()
	h.recordLocked(r)
}

func (h *Handle) recordLocked(r *Req) {
	b := h.B
	b.reqs++
	if b.Budget > 0 && b.reqs > b.Budget {
		fmt.Fprintf(os.Stderr, "\nVERIF-BUDGET-EXCEEDED after %d requests; last: %s\n", b.reqs, r.String())
		os.Exit(3)
	}
	if b.NoLog {
		return
	}
	r.Seq = len(b.Log)
	b.Log = append(b.Log, *r)
}

func (h *Handle) GetObjectWithContext(ctx aws.Context, in *s3.GetObjectInput, _ ...request.Option) (*s3.GetObjectOutput, error) {
	r, mode, err := h.begin(ctx, "GET", *in.Key, nil)
	if mode == FailBefore && (r.Outcome == "ctx" || r.Outcome == "dead") {
		return nil, err
	}
	b := h.B
	b.mu.Lock()
	defer b.mu.Unlock()
	switch mode {
	case FailBefore, ApplyThenFail:
		r.Outcome = "fault"
		h.recordLocked(r)
		return nil, err
	case FaultNoSuchKey:
		r.Outcome = "fault-nosuchkey"
		h.recordLocked(r)
		return nil, noSuchKey()
	}
	v, ok := b.Objs[*in.Key]
	if !ok {
		r.Outcome = "nosuchkey"
		h.recordLocked(r)
		return nil, noSuchKey()
	}
	r.Outcome = "ok"
	r.Sum, r.Len = sum(v), len(v)
	h.recordLocked(r)
	return &s3.GetObjectOutput{Body: io.NopCloser(bytes.NewReader(v)), ContentLength: aws.Int64(int64(len(v)))}, nil
}

func (h *Handle) PutObjectWithContext(ctx aws.Context, in *s3.PutObjectInput, _ ...request.Option) (*s3.PutObjectOutput, error) {
	body, rerr := io.ReadAll(in.Body)
	if rerr != nil {
		return nil, rerr
	}
	if body == nil {
		body = []byte{}
	}
	r, mode, err := h.begin(ctx, "PUT", *in.Key, body)
	if mode == FailBefore && (r.Outcome == "ctx" || r.Outcome == "dead") {
		return nil, err
	}
	b := h.B
	b.mu.Lock()
	defer b.mu.Unlock()
	if h.ReadOnly {
		b.broke(fmt.Sprintf("read-only client %s issued PUT %s", h.Name, *in.Key))
	}
	if mode == FailBefore {
		r.Outcome = "fault"
		h.recordLocked(r)
		return nil, err
	}
	if f, ok := b.first[*in.Key]; ok && f != r.Sum {
		b.broke(fmt.Sprintf("object %s re-written with different bytes (%s -> %s) by %s", *in.Key, f, r.Sum, h.Name))
	} else if !ok {
		b.first[*in.Key] = r.Sum
	}
	b.Objs[*in.Key] = body
	if mode == ApplyThenFail {
		r.Outcome = "applied-fault"
		h.recordLocked(r)
		return nil, err
	}
	r.Outcome = "ok"
	h.recordLocked(r)
	return &s3.PutObjectOutput{}, nil
}

func (h *Handle) DeleteObjectWithContext(ctx aws.Context, in *s3.DeleteObjectInput, _ ...request.Option) (*s3.DeleteObjectOutput, error) {
	r, mode, err := h.begin(ctx, "DELETE", *in.Key, nil)
	if mode == FailBefore && (r.Outcome == "ctx" || r.Outcome == "dead") {
		return nil, err
	}
	b := h.B
	b.mu.Lock()
	defer b.mu.Unlock()
	if h.ReadOnly {
		b.broke(fmt.Sprintf("read-only client %s issued DELETE %s", h.Name, *in.Key))
	}
	if mode == FailBefore {
		r.Outcome = "fault"
		h.recordLocked(r)
		return nil, err
	}
	delete(b.Objs, *in.Key)
	if mode == ApplyThenFail {
		r.Outcome = "applied-fault"
		h.recordLocked(r)
		return nil, err
	}
	r.Outcome = "ok"
	h.recordLocked(r)
	return &s3.DeleteObjectOutput{}, nil
}

func (h *Handle) ListObjectsV2WithContext(ctx aws.Context, in *s3.ListObjectsV2Input, _ ...request.Option) (*s3.ListObjectsV2Output, error) {
	prefix := ""
	if in.Prefix != nil {
		prefix = *in.Prefix
	}
	r, mode, err := h.begin(ctx, "LIST", prefix, nil)
	if mode == FailBefore && (r.Outcome == "ctx" || r.Outcome == "dead") {
		return nil, err
	}
	b := h.B
	b.mu.Lock()
	defer b.mu.Unlock()
	if mode != FaultNone {
		r.Outcome = "fault"
		h.recordLocked(r)
		return nil, err
	}
	var ks []string
	for k := range b.Objs {
		if strings.HasPrefix(k, prefix) {
			ks = append(ks, k)
		}
	}
	sort.Strings(ks)
	out := &s3.ListObjectsV2Output{IsTruncated: aws.Bool(false), KeyCount: aws.Int64(int64(len(ks)))}
	for _, k := range ks {
		out.Contents = append(out.Contents, &s3.Object{Key: aws.String(k), Size: aws.Int64(int64(len(b.Objs[k])))})
	}
	r.Outcome = "ok"
	r.Len = len(ks)
	r.Sum = sum([]byte(strings.Join(ks, "\n")))
	h.recordLocked(r)
	return out, nil
}

// Mutations extracts the applied mutating requests (PUT with body / DELETE) from a log slice.
type Mutation struct {
	Op   string `json:"op"`
	Key  string `json:"key"`
	Body []byte `json:"-"`
	Sum  string `json:"sum,omitempty"`
}

func Mutations(log []Req) []Mutation {
	var ms []Mutation
	for _, r := range log {
		if !r.Mutating() {
			continue
		}
		if r.Outcome != "ok" && r.Outcome != "applied-fault" {
			continue
		}
		ms = append(ms, Mutation{Op: r.Op, Key: r.Key, Body: r.body, Sum: r.Sum})
	}
	return ms
}

// Apply applies a mutation to an object map.
func (m Mutation) Apply(objs map[string][]byte) {
	if m.Op == "PUT" {
		objs[m.Key] = m.Body
	} else {
		delete(objs, m.Key)
	}
}

// ClientLogDigest hashes everything a client has been answered so far (op, key, outcome, body digest).
func (b *Bucket) ClientLogDigest(client string) string {
	b.mu.Lock()
	defer b.mu.Unlock()
	h := sha256.New()
	for _, r := range b.Log {
		if r.Client == client {
			fmt.Fprintf(h, "%s|%s|%s|%s|%d;", r.Op, r.Key, r.Outcome, r.Sum, r.Len)
		}
	}
	return hex.EncodeToString(h.Sum(nil)[:8])
}
