package engine

import (
	"bufio"
	"bytes"
	"encoding/json"
	"fmt"
	"io"
	"os"
	"os/exec"
	"regexp"
	"runtime"
	"strings"
	"sync"
	"time"
)

// Viol is one property violation observed while running a case.
type Viol struct {
	Class string `json:"class"` // narrow, deterministic class key
	Msg   string `json:"msg"`
	// Case, when set, is a narrower case that reproduces this violation on its own (for a schedule search: the one
	// schedule that failed). It becomes the witness instead of the case the worker was given.
	Case json.RawMessage `json:"case,omitempty"`
}

// Result is what a worker returns for one case.
type Result struct {
	Key        string            `json:"k,omitempty"`  // canonical state key (explicit-state search)
	Outcome    string            `json:"o,omitempty"`  // observed outcome class (anti-vacuity)
	Nontrivial bool              `json:"nt,omitempty"` // the oracle had something to distinguish
	Viol       []Viol            `json:"v,omitempty"`
	Next       []json.RawMessage `json:"n,omitempty"` // successors (explicit-state search)
	Data       json.RawMessage   `json:"d,omitempty"` // check-specific payload
	Trans      int               `json:"t,omitempty"` // transitions (statements / opens) executed on the real code
	Execs      int               `json:"x,omitempty"` // complete executions inside this case (default 1)
	States     []string          `json:"s,omitempty"` // extra state keys visited inside this case
	Outcomes   []string          `json:"os,omitempty"`
	NontrivN   int               `json:"ntn,omitempty"`
	Poisoned   bool              `json:"poisoned,omitempty"` // a Go panic was recovered; the worker exits after this case
	Incomplete bool              `json:"inc,omitempty"`      // the run's budget ended before this case was fully enumerated
	Died       bool              `json:"died,omitempty"`
	TimedOut   bool              `json:"timeout,omitempty"`
	Stderr     string            `json:"stderr,omitempty"`
}

func (r *Result) Violate(class, format string, a ...interface{}) {
	r.Viol = append(r.Viol, Viol{Class: class, Msg: fmt.Sprintf(format, a...)})
}

// WorkerFunc runs one case inside a worker process.
type WorkerFunc func(c json.RawMessage) *Result

var workerFuncs = map[string]WorkerFunc{}

// RegisterWorker registers the worker-side function of a case kind.
func RegisterWorker(kind string, f WorkerFunc) { workerFuncs[kind] = f }

type wireReq struct {
	Kind string          `json:"kind"`
	Case json.RawMessage `json:"case"`
	// Deadline (unix nanoseconds, 0 = none) is the run's wall-clock budget: an enumerating worker stops
	// starting new executions after it and reports the case as incomplete (coverage, never a verdict).
	Deadline int64 `json:"deadline,omitempty"`
}

// RunDeadline is set by a budgeted run in the parent process and sent along with every case.
var RunDeadline int64

var (
	caseDeadline   int64
	caseIncomplete bool
	lastBeat       time.Time
)

// Beat is called by a worker after every complete execution inside a case. It tells the parent that the
// case is making progress (the watchdog fires only after CaseTimeout WITHOUT progress, i.e. on a real hang,
// never because a case is merely large), and it returns true when the run's budget is used up: the caller
// then stops enumerating and the case is reported as incomplete.
func Beat() (stop bool) {
	now := time.Now()
	if now.Sub(lastBeat) > BeatEvery {
		lastBeat = now
		if inWorker {
			os.Stdout.Write([]byte("#\n"))
		}
	}
	if caseDeadline != 0 && now.UnixNano() > caseDeadline {
		caseIncomplete = true
		return true
	}
	return false
}

var inWorker bool

// BeatEvery is the minimum interval between two progress lines of a worker.
var BeatEvery = 5 * time.Second

// RunInProcess runs a case in this process (replay, and the worker loop).
func RunInProcess(kind string, c json.RawMessage) (res *Result) {
	f := workerFuncs[kind]
	if f == nil {
		return &Result{Viol: []Viol{{Class: "harness", Msg: "unknown kind " + kind}}}
	}
	defer func() {
		if p := recover(); p != nil {
			buf := make([]byte, 1<<14)
			buf = buf[:runtime.Stack(buf, false)]
			res = &Result{}
			res.Violate("go-panic:"+NormalizePanic(fmt.Sprint(p)), "panic: %v\n%s", p, buf)
			Poisoned = true
			res.Poisoned = true
		}
	}()
	return f(c)
}

// Poisoned is set after a recovered panic: the process may hold SQLite locks, so a worker exits after reporting.
var Poisoned bool

// WorkerMain is the loop of a worker subprocess.
func WorkerMain() {
	in := bufio.NewReaderSize(os.Stdin, 1<<20)
	out := bufio.NewWriterSize(os.Stdout, 1<<20)
	for {
		line, err := in.ReadBytes('\n')
		if len(line) > 0 {
			var req wireReq
			if e := json.Unmarshal(line, &req); e != nil {
				fmt.Fprintf(os.Stderr, "worker: bad request: %v\n", e)
				os.Exit(4)
			}
			inWorker = true
			caseDeadline, caseIncomplete, lastBeat = req.Deadline, false, time.Now()
			res := RunInProcess(req.Kind, req.Case)
			if caseIncomplete {
				res.Incomplete = true
			}
			b, e := json.Marshal(res)
			if e != nil {
				fmt.Fprintf(os.Stderr, "worker: marshal: %v\n", e)
				os.Exit(4)
			}
			out.Write(b)
			out.WriteByte('\n')
			out.Flush()
			if Poisoned {
				os.Exit(0)
			}
		}
		if err != nil {
			return
		}
	}
}

var reHex = regexp.MustCompile(`0x[0-9a-f]+|\b[0-9]+\b`)

// NormalizePanic reduces a panic message to a stable class fragment.
func NormalizePanic(s string) string {
	s = strings.TrimSpace(s)
	if i := strings.IndexByte(s, '\n'); i >= 0 {
		s = s[:i]
	}
	s = reHex.ReplaceAllString(s, "N")
	if len(s) > 100 {
		s = s[:100]
	}
	return s
}

// PanicLine extracts the first "panic:" / "fatal error:" line from a stderr dump.
func PanicLine(stderr string) string {
	for _, l := range strings.Split(stderr, "\n") {
		l = strings.TrimSpace(l)
		if strings.HasPrefix(l, "panic:") || strings.HasPrefix(l, "fatal error:") || strings.HasPrefix(l, "VERIF-BUDGET-EXCEEDED") {
			return NormalizePanic(l)
		}
	}
	return "unknown"
}

type worker struct {
	cmd    *exec.Cmd
	in     io.WriteCloser
	out    *bufio.Reader
	stderr *tailBuf
	served int
}

type tailBuf struct {
	mu  sync.Mutex
	buf []byte
}

func (t *tailBuf) Write(p []byte) (int, error) {
	t.mu.Lock()
	defer t.mu.Unlock()
	t.buf = append(t.buf, p...)
	if len(t.buf) > 1<<16 {
		t.buf = t.buf[len(t.buf)-(1<<15):]
	}
	return len(p), nil
}
func (t *tailBuf) String() string { t.mu.Lock(); defer t.mu.Unlock(); return string(t.buf) }

func startWorker() (*worker, error) {
	cmd := exec.Command(os.Args[0], "worker")
	cmd.Env = append(os.Environ(), "GOMAXPROCS=2", "GOTRACEBACK=single")
	in, err := cmd.StdinPipe()
	if err != nil {
		return nil, err
	}
	out, err := cmd.StdoutPipe()
	if err != nil {
		return nil, err
	}
	tb := &tailBuf{}
	cmd.Stderr = tb
	if err := cmd.Start(); err != nil {
		return nil, err
	}
	return &worker{cmd: cmd, in: in, out: bufio.NewReaderSize(out, 1<<20), stderr: tb}, nil
}

func (w *worker) stop() {
	w.in.Close()
	done := make(chan struct{})
	go func() { w.cmd.Wait(); close(done) }()
	select {
	case <-done:
	case <-time.After(2 * time.Second):
		w.cmd.Process.Kill()
		<-done
	}
}

func (w *worker) kill() {
	w.cmd.Process.Kill()
	w.cmd.Wait()
}

// CaseTimeout is the coarse per-case watchdog (not an oracle: see DESIGN 2.2).
var CaseTimeout = 300 * time.Second

// RecycleEvery bounds how many cases one worker process serves.
var RecycleEvery = 4000

func (w *worker) run(kind string, c json.RawMessage) *Result {
	b, _ := json.Marshal(wireReq{Kind: kind, Case: c, Deadline: RunDeadline})
	b = append(b, '\n')
	type rd struct {
		line []byte
		err  error
	}
	ch := make(chan rd, 1)
	beat := make(chan struct{}, 1)
	go func() {
		if _, err := w.in.Write(b); err != nil {
			ch <- rd{nil, err}
			return
		}
		for {
			line, err := w.out.ReadBytes('\n')
			if err == nil && len(line) == 2 && line[0] == '#' {
				select {
				case beat <- struct{}{}:
				default:
				}
				continue
			}
			ch <- rd{line, err}
			return
		}
	}()
wait:
	select {
	case <-beat:
		goto wait // progress: the watchdog restarts
	case r := <-ch:
		if r.err != nil || len(bytes.TrimSpace(r.line)) == 0 {
			w.cmd.Wait()
			return &Result{Died: true, Stderr: tail(w.stderr.String(), 6000)}
		}
		var res Result
		if err := json.Unmarshal(r.line, &res); err != nil {
			w.kill()
			return &Result{Died: true, Stderr: "bad worker output: " + err.Error() + ": " + tail(string(r.line), 500)}
		}
		w.served++
		return &res
	case <-time.After(CaseTimeout):
		w.kill()
		return &Result{Died: true, TimedOut: true, Stderr: tail(w.stderr.String(), 3000)}
	}
}

func tail(s string, n int) string {
	if len(s) > n {
		return s[len(s)-n:]
	}
	return s
}

// Workers returns the number of worker processes to use.
func Workers() int {
	n := runtime.NumCPU()
	if n > 16 {
		n = 16
	}
	if n < 1 {
		n = 1
	}
	return n
}

// Map runs all cases of one kind in worker subprocesses and calls cb (serialised)
// with every result. A worker that dies is attributed to the case it was running.
func Map(kind string, cases []json.RawMessage, cb func(i int, c json.RawMessage, r *Result)) {
	MapUntil(kind, cases, nil, cb)
}

// MapUntil is Map with a stop condition checked before every dispatch; it returns the number of cases
// that were not dispatched.
func MapUntil(kind string, cases []json.RawMessage, stop func() bool, cb func(i int, c json.RawMessage, r *Result)) (skipped int) {
	n := Workers()
	if n > len(cases) {
		n = len(cases)
	}
	if n == 0 {
		return 0
	}
	var mu sync.Mutex
	next := 0
	var cbMu sync.Mutex
	var wg sync.WaitGroup
	for k := 0; k < n; k++ {
		wg.Add(1)
		go func() {
			defer wg.Done()
			var w *worker
			defer func() {
				if w != nil {
					w.stop()
				}
			}()
			for {
				mu.Lock()
				if stop != nil && next < len(cases) && stop() {
					skipped += len(cases) - next
					next = len(cases)
				}
				i := next
				next++
				mu.Unlock()
				if i >= len(cases) {
					return
				}
				if w == nil {
					var err error
					w, err = startWorker()
					if err != nil {
						fmt.Fprintf(os.Stderr, "cannot start worker: %v\n", err)
						os.Exit(2)
					}
				}
				r := w.run(kind, cases[i])
				if r.Died || r.Poisoned || w.served >= RecycleEvery {
					if !r.Died {
						w.stop()
					}
					w = nil
				}
				cbMu.Lock()
				cb(i, cases[i], r)
				cbMu.Unlock()
			}
		}()
	}
	wg.Wait()
	return skipped
}

// RunOne runs a single case in a fresh worker subprocess.
func RunOne(kind string, c json.RawMessage) *Result {
	w, err := startWorker()
	if err != nil {
		fmt.Fprintf(os.Stderr, "cannot start worker: %v\n", err)
		os.Exit(2)
	}
	r := w.run(kind, c)
	if !r.Died {
		w.stop()
	}
	return r
}

// J marshals a value to json.RawMessage.
func J(v interface{}) json.RawMessage {
	b, err := json.Marshal(v)
	if err != nil {
		panic(err)
	}
	return b
}
