package engine

import (
	"bufio"
	"crypto/sha256"
	"encoding/hex"
	"encoding/json"
	"fmt"
	"os"
	"path/filepath"
	"sort"
	"strconv"
	"strings"
	"time"
)

// Root is the /verif directory (location of evidence/, replays/, KNOWN_FINDINGS.txt).
var Root = func() string {
	if r := os.Getenv("VERIF_ROOT"); r != "" {
		return r
	}
	return "/verif"
}()

type violRec struct {
	Class string
	Msg   string
	Kind  string
	Case  json.RawMessage
	Count int
}

// Run is the coordinator-side context of one check run.
type Run struct {
	Prop  string
	Tier  string
	Seed  int64
	Level string // exploration | fault_enumeration | model_checking

	Rule        string
	Assumptions []string
	Bounds      map[string]interface{}
	Extra       map[string]interface{}
	Exhaustive  bool

	start      time.Time
	evals      int
	execs      int
	trans      int
	nontrivial int
	states     map[string]struct{}
	outcomes   map[string]int
	samples    []interface{}
	viol       map[string]*violRec
	deadline   time.Time
	capped     bool
}

func NewRun(prop, tier, level string) *Run {
	seed, _ := strconv.ParseInt(os.Getenv("VERIF_SEED"), 10, 64)
	return &Run{Prop: prop, Tier: tier, Seed: seed, Level: level, Exhaustive: true,
		Bounds: map[string]interface{}{}, Extra: map[string]interface{}{},
		start: time.Now(), states: map[string]struct{}{}, outcomes: map[string]int{}, viol: map[string]*violRec{}}
}

func (r *Run) Thorough() bool { return r.Tier == "thorough" }

// SetBudget sets an internal wall-clock cap; hitting it makes the run non-exhaustive (never a violation).
func (r *Run) SetBudget(d time.Duration) {
	// VERIF_BUDGET_S overrides every internal budget (used to test the budget path itself; never set in MANIFEST commands)
	if v, err := strconv.Atoi(os.Getenv("VERIF_BUDGET_S")); err == nil && v > 0 {
		d = time.Duration(v) * time.Second
	}
	r.deadline = r.start.Add(d)
}

// SetBudgetFromNow is SetBudget counted from now (a later phase of a run gets its own budget).
func (r *Run) SetBudgetFromNow(d time.Duration) {
	if v, err := strconv.Atoi(os.Getenv("VERIF_BUDGET_S")); err == nil && v > 0 {
		d = time.Duration(v) * time.Second
	}
	r.deadline = time.Now().Add(d)
}

// OverBudget reports whether the internal cap has been reached (and records the cap).
func (r *Run) OverBudget() bool {
	if !r.deadline.IsZero() && time.Now().After(r.deadline) {
		if !r.capped {
			r.capped = true
			r.Exhaustive = false
			r.Extra["cap_hit"] = "internal wall-clock budget reached; coverage below is what completed"
		}
		return true
	}
	return false
}

// Sample records an example case (first few only).
func (r *Run) Sample(v interface{}) {
	if len(r.samples) < 6 {
		r.samples = append(r.samples, v)
	}
}

// NSamples returns the number of samples recorded so far.
func (r *Run) NSamples() int { return len(r.samples) }

// State records a visited state key; reports whether it was new.
func (r *Run) State(k string) bool {
	if _, ok := r.states[k]; ok {
		return false
	}
	r.states[k] = struct{}{}
	return true
}

func (r *Run) Outcome(o string) { r.outcomes[o]++ }

// Add does the default accounting for one case result; it returns true if the result is usable
// (the worker did not die).
func (r *Run) Add(kind string, c json.RawMessage, res *Result) bool {
	r.evals++
	if res.Execs > 0 {
		r.execs += res.Execs
	} else {
		r.execs++
	}
	r.trans += res.Trans
	if res.NontrivN > 0 {
		r.nontrivial += res.NontrivN
	} else if res.Nontrivial {
		r.nontrivial++
	}
	if res.Key != "" {
		r.State(res.Key)
	}
	for _, s := range res.States {
		r.State(s)
	}
	if res.Outcome != "" {
		r.Outcome(res.Outcome)
	}
	for _, o := range res.Outcomes {
		r.Outcome(o)
	}
	if len(r.samples) < 2 && len(res.Data) > 2 && kind != "merge" {
		r.samples = append(r.samples, json.RawMessage(res.Data)) // every evidence file shows at least a couple of real cases
	}
	if res.Incomplete {
		r.Exhaustive = false
		n, _ := r.Extra["cases_cut_short_by_budget"].(int)
		r.Extra["cases_cut_short_by_budget"] = n + 1
	}
	if res.Died {
		class := "worker-died:" + PanicLine(res.Stderr)
		if res.TimedOut {
			class = "hang-watchdog"
		}
		r.Violation(kind, c, class, "worker process died while running this case:\n"+tail(res.Stderr, 2500))
		return false
	}
	for _, v := range res.Viol {
		if len(v.Case) > 0 {
			r.Violation(kind, v.Case, v.Class, v.Msg)
			continue
		}
		r.Violation(kind, c, v.Class, v.Msg)
	}
	return true
}

// Violation records a violation; the shortest case per class is kept as the witness.
func (r *Run) Violation(kind string, c json.RawMessage, class, msg string) {
	class = strings.ReplaceAll(class, " ", "_")
	v := r.viol[class]
	if v == nil {
		r.viol[class] = &violRec{Class: class, Msg: msg, Kind: kind, Case: c, Count: 1}
		return
	}
	v.Count++
	if len(c) < len(v.Case) || (len(c) == len(v.Case) && string(c) < string(v.Case)) {
		v.Case, v.Msg, v.Kind = c, msg, kind
	}
}

// Known is one line of KNOWN_FINDINGS.txt.
type Known struct {
	Prop  string
	Class string
	Text  string
}

// LoadKnown reads the known-findings file (read-only at run time).
func LoadKnown() []Known {
	f, err := os.Open(filepath.Join(Root, "KNOWN_FINDINGS.txt"))
	if err != nil {
		return nil
	}
	defer f.Close()
	var ks []Known
	sc := bufio.NewScanner(f)
	for sc.Scan() {
		l := strings.TrimSpace(sc.Text())
		if !strings.HasPrefix(l, "known:") {
			continue
		}
		fs := strings.Fields(strings.TrimPrefix(l, "known:"))
		k := Known{}
		var rest []string
		for _, f := range fs {
			switch {
			case strings.HasPrefix(f, "property=") && k.Prop == "":
				k.Prop = strings.TrimPrefix(f, "property=")
			case strings.HasPrefix(f, "class=") && k.Class == "":
				k.Class = strings.TrimPrefix(f, "class=")
			default:
				rest = append(rest, f)
			}
		}
		k.Text = strings.Join(rest, " ")
		ks = append(ks, k)
	}
	return ks
}

// ReplayFile is the on-disk form of a violation witness.
type ReplayFile struct {
	Property string          `json:"property"`
	Class    string          `json:"class"`
	Kind     string          `json:"kind"`
	Msg      string          `json:"msg"`
	Case     json.RawMessage `json:"case"`
}

// Finish confirms violations, matches known findings, writes evidence and returns the exit code.
func (r *Run) Finish() int {
	known := LoadKnown()
	classes := make([]string, 0, len(r.viol))
	for c := range r.viol {
		classes = append(classes, c)
	}
	sort.Strings(classes)
	exit := 0
	unlisted := 0
	if old, _ := filepath.Glob(filepath.Join(Root, "replays", r.Prop, "*.json")); len(old) > 0 {
		for _, f := range old {
			os.Remove(f)
		}
	}
	var knownHit []string
	for _, c := range classes {
		v := r.viol[c]
		// determinism: the witness must fail identically in fresh workers
		if v.Kind != "" && os.Getenv("VERIF_NOCONFIRM") == "" {
			for i := 0; i < 3; i++ {
				res := RunOne(v.Kind, v.Case)
				if !sameClass(res, c) {
					if len(classesOf(res)) > 0 {
						// the witness fails again, under another class (e.g. mast's concurrent flush reacts to an
						// injected fault in a scheduling-dependent way): still a failing, replayable case
						fmt.Printf("note: property=%s class=%s: re-run %d of the witness failed as %v\n", r.Prop, c, i+1, classesOf(res))
						continue
					}
					fmt.Printf("HARNESS-ERROR property=%s class=%s is not reproducible (re-run %d gave no violation)\n", r.Prop, c, i+1)
					exit = 2
				}
			}
		}
		h := sha256.Sum256([]byte(c))
		dir := filepath.Join(Root, "replays", r.Prop)
		os.MkdirAll(dir, 0o755)
		path := filepath.Join(dir, hex.EncodeToString(h[:6])+".json")
		b, _ := json.MarshalIndent(ReplayFile{Property: r.Prop, Class: c, Kind: v.Kind, Msg: v.Msg, Case: v.Case}, "", " ")
		os.WriteFile(path, append(b, '\n'), 0o644)
		listed := false
		for _, k := range known {
			if k.Prop == r.Prop && k.Class == c {
				listed = true
				fmt.Printf("KNOWN-FINDING: property=%s class=%s %s (cases=%d replay=%s)\n", r.Prop, c, k.Text, v.Count, path)
				knownHit = append(knownHit, c)
			}
		}
		if !listed {
			unlisted++
			fmt.Printf("VIOLATION property=%s replay=%s\n", r.Prop, path)
			fmt.Printf("  class=%s cases=%d\n  %s\n", c, v.Count, strings.ReplaceAll(firstLines(v.Msg, 12), "\n", "\n  "))
			if exit == 0 {
				exit = 1
			}
		}
	}
	r.writeEvidence(unlisted, knownHit)
	fmt.Printf("%s %s: evaluations=%d executions=%d transitions=%d states=%d outcomes=%d nontrivial=%d exhaustive=%v wall=%.1fs violations=%d known=%d\n",
		r.Prop, r.Tier, r.evals, r.execs, r.trans, len(r.states), len(r.outcomes), r.nontrivial, r.Exhaustive, time.Since(r.start).Seconds(), unlisted, len(knownHit))
	return exit
}

func firstLines(s string, n int) string {
	ls := strings.Split(s, "\n")
	if len(ls) > n {
		ls = append(ls[:n], "...")
	}
	return strings.Join(ls, "\n")
}

func classesOf(res *Result) []string {
	var cs []string
	if res.Died {
		if res.TimedOut {
			cs = append(cs, "hang-watchdog")
		} else {
			cs = append(cs, strings.ReplaceAll("worker-died:"+PanicLine(res.Stderr), " ", "_"))
		}
	}
	for _, v := range res.Viol {
		cs = append(cs, strings.ReplaceAll(v.Class, " ", "_"))
	}
	return cs
}

func sameClass(res *Result, c string) bool {
	for _, x := range classesOf(res) {
		if x == c {
			return true
		}
	}
	return false
}

func (r *Run) writeEvidence(unlisted int, knownHit []string) {
	cov := map[string]interface{}{
		"evaluations":         r.evals,
		"executions":          r.execs,
		"distinct_nontrivial": r.nontrivial,
		"rule":                r.Rule,
		"samples":             r.samples,
		"exhaustive":          r.Exhaustive,
		"distinct_outcomes":   len(r.outcomes),
		"bounds":              r.Bounds,
	}
	if r.Level == "model_checking" {
		cov["states"] = len(r.states)
		cov["transitions"] = r.trans
		cov["traces_validated_against_impl"] = r.execs
	} else {
		if len(r.states) > 0 {
			cov["states"] = len(r.states)
		}
		if r.trans > 0 {
			cov["transitions"] = r.trans
		}
	}
	if len(r.outcomes) > 0 && len(r.outcomes) <= 40 {
		cov["outcome_histogram"] = r.outcomes
	}
	for k, v := range r.Extra {
		cov[k] = v
	}
	if len(knownHit) > 0 {
		cov["known_findings_reproduced"] = knownHit
	}
	if r.samples == nil {
		cov["samples"] = []interface{}{}
	}
	ev := map[string]interface{}{
		"property_id": r.Prop,
		"tier":        r.Tier,
		"seed":        r.Seed,
		"level":       r.Level,
		"coverage":    cov,
		"assumptions": r.Assumptions,
		"wall_s":      float64(int(time.Since(r.start).Seconds()*10)) / 10,
		"violations":  unlisted,
	}
	os.MkdirAll(filepath.Join(Root, "evidence"), 0o755)
	b, _ := json.MarshalIndent(ev, "", " ")
	os.WriteFile(filepath.Join(Root, "evidence", r.Prop+".json"), append(b, '\n'), 0o644)
}

// Vacuity makes a run fail as a harness error when its exploration was vacuous.
func (r *Run) Vacuity(minOutcomes, minNontrivial int) int {
	if len(r.outcomes) < minOutcomes || r.nontrivial < minNontrivial {
		if r.capped {
			return 0
		}
		fmt.Printf("HARNESS-ERROR property=%s vacuous exploration: outcomes=%d (<%d) or nontrivial=%d (<%d)\n",
			r.Prop, len(r.outcomes), minOutcomes, r.nontrivial, minNontrivial)
		return 2
	}
	return 0
}

// Evals returns the number of cases accounted so far.
func (r *Run) Evals() int { return r.evals }

// BFSNext is one successor reported by a worker: the canonical key of the state reached and the case that reaches it.
type BFSNext struct {
	Key  string          `json:"k"`
	Case json.RawMessage `json:"c"`
}

// BFS runs a level-synchronous explicit-state search. Each case is executed by kind's worker, which
// returns the canonical key of the state the case reaches (Result.Key) and the successors (Result.Next
// holding BFSNext values). States are deduplicated by key; a state is expanded once. It returns true
// if the frontier emptied (closure) and false if maxDepth stopped it.
func (r *Run) BFS(kind string, roots []json.RawMessage, maxDepth int, onResult func(c json.RawMessage, res *Result)) (closure bool) {
	seen := map[string]struct{}{}
	frontier := roots
	depth := 0
	for len(frontier) > 0 {
		if maxDepth >= 0 && depth > maxDepth {
			r.Extra["bfs_max_depth"] = depth - 1
			return false
		}
		if r.OverBudget() {
			r.Extra["bfs_max_depth"] = depth - 1
			return false
		}
		var next []json.RawMessage
		Map(kind, frontier, func(i int, c json.RawMessage, res *Result) {
			ok := r.Add(kind, c, res)
			if onResult != nil {
				onResult(c, res)
			}
			if !ok {
				return
			}
			if res.Key != "" {
				seen[res.Key] = struct{}{}
			}
			for _, n := range res.Next {
				var bn BFSNext
				if err := json.Unmarshal(n, &bn); err != nil {
					continue
				}
				if _, dup := seen[bn.Key]; dup {
					continue
				}
				seen[bn.Key] = struct{}{}
				next = append(next, bn.Case)
			}
		})
		frontier = next
		depth++
	}
	r.Extra["bfs_max_depth"] = depth - 1
	return true
}

// MapBudget runs the cases like Map but stops dispatching when the run's internal budget is reached; the
// run is then reported as not exhaustive with the number of cases left out (never a violation).
func (r *Run) MapBudget(kind string, cases []json.RawMessage, cb func(i int, c json.RawMessage, res *Result)) {
	if !r.deadline.IsZero() {
		RunDeadline = r.deadline.UnixNano() // workers stop enumerating at the budget too (Result.Incomplete)
	}
	skipped := MapUntil(kind, cases, r.OverBudget, cb)
	RunDeadline = 0 // witness confirmation and replay run without a deadline
	if skipped > 0 {
		r.Exhaustive = false
		r.Extra["cases_not_run_because_of_budget"] = skipped
		r.Extra["cases_total"] = len(cases)
	}
}
