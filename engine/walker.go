package engine

import (
	"context"
	"encoding/json"
	"fmt"
	"sort"
	"strings"
	"time"

	"github.com/jrhy/s3db"
	crdtpub "github.com/jrhy/s3db/kv/crdt"
	v1proto "github.com/jrhy/s3db/proto/v1"
	"google.golang.org/protobuf/proto"
)

// Col is one stored column value with its absolute update time.
type Col struct {
	Val string `json:"v"`
	At  int64  `json:"at"`
}

// Entry is one stored tree entry, fully decoded.
type Entry struct {
	Key     string         `json:"k"`
	Mod     int64          `json:"m"`
	Tomb    int64          `json:"d,omitempty"`
	Prev    string         `json:"p,omitempty"`
	NoRow   bool           `json:"norow,omitempty"`
	Deleted bool           `json:"del,omitempty"`
	DelAt   int64          `json:"delat"` // absolute time of the row's delete/insert status
	Cols    map[string]Col `json:"c,omitempty"`
}

// Visible reports whether the entry is a live row.
func (e Entry) Visible() bool { return e.Tomb == 0 && !e.NoRow && !e.Deleted }

// RowString renders a visible row as key|col=val,... with the given column order.
func (e Entry) RowString(cols []string) string {
	parts := []string{e.Key}
	for _, c := range cols {
		if v, ok := e.Cols[c]; ok {
			parts = append(parts, v.Val)
		} else {
			parts = append(parts, "NULL")
		}
	}
	return strings.Join(parts, "|")
}

// Canon renders the entry with or without timestamps.
func (e Entry) Canon(times bool) string {
	var sb strings.Builder
	sb.WriteString(e.Key)
	if e.Tomb != 0 {
		if times {
			fmt.Fprintf(&sb, " TOMB@%d", e.Tomb)
		} else {
			sb.WriteString(" TOMB")
		}
	}
	if times {
		fmt.Fprintf(&sb, " m%d", e.Mod)
		if e.Prev != "" {
			fmt.Fprintf(&sb, " prev=%s", e.Prev)
		}
	}
	if e.Deleted {
		sb.WriteString(" DEL")
	}
	if times {
		fmt.Fprintf(&sb, " s%d", e.DelAt)
	}
	names := make([]string, 0, len(e.Cols))
	for n := range e.Cols {
		names = append(names, n)
	}
	sort.Strings(names)
	for _, n := range names {
		if times {
			fmt.Fprintf(&sb, " %s=%s@%d", n, e.Cols[n].Val, e.Cols[n].At)
		} else {
			fmt.Fprintf(&sb, " %s=%s", n, e.Cols[n].Val)
		}
	}
	return sb.String()
}

func renderSV(v *v1proto.SQLiteValue) string {
	if v == nil {
		return "NULL"
	}
	switch v.Type {
	case v1proto.Type_INT:
		return Render(v.Int)
	case v1proto.Type_REAL:
		return Render(v.Real)
	case v1proto.Type_TEXT:
		return Render(v.Text)
	case v1proto.Type_BLOB:
		b := v.Blob
		if b == nil {
			b = []byte{}
		}
		return Render(b)
	}
	return "NULL"
}

func entryFrom(key *v1proto.SQLiteValue, mod, tomb int64, prev string, row *v1proto.Row) Entry {
	e := Entry{Key: renderSV(key), Mod: mod, Tomb: tomb, Prev: prev}
	if row == nil {
		e.NoRow = true
		return e
	}
	e.Deleted = row.Deleted
	e.DelAt = mod + int64(row.DeleteUpdateOffset.AsDuration())
	if len(row.ColumnValues) > 0 {
		e.Cols = map[string]Col{}
		for n, cv := range row.ColumnValues {
			e.Cols[n] = Col{Val: renderSV(cv.Value), At: mod + int64(cv.UpdateOffset.AsDuration())}
		}
	}
	return e
}

// TreeDump is a decoded tree.
type TreeDump struct {
	Entries  []Entry  `json:"entries"`
	Nodes    []string `json:"nodes"`    // names of all node objects reachable
	Problems []string `json:"problems"` // structural problems found by the walker
	Height   int      `json:"height"`
	maxDepth int
}

// Canon renders the whole tree content canonically.
func (t *TreeDump) Canon(times bool) string {
	s := make([]string, len(t.Entries))
	for i, e := range t.Entries {
		s[i] = e.Canon(times)
	}
	return strings.Join(s, "\n")
}

// VisibleRows renders the visible rows.
func (t *TreeDump) VisibleRows(cols []string) Rows {
	out := Rows{}
	for _, e := range t.Entries {
		if e.Visible() {
			out = append(out, e.RowString(cols))
		}
	}
	return out
}

// RootJSON mirrors the persisted version object (JSON form).
type RootJSON struct {
	Link         *string    `json:"Link"`
	Size         uint64     `json:"Size"`
	Height       uint8      `json:"Height"`
	BranchFactor uint       `json:"BranchFactor"`
	NodeFormat   string     `json:"NodeFormat,omitempty"`
	Created      *time.Time `json:"cr,omitempty"`
	MergeSources []string   `json:"p,omitempty"`
	MergeMode    int        `json:"mm,omitempty"`
	KVVersion    int        `json:"kv_version,omitempty"`
}

// VersionDump is a decoded version object with its tree.
type VersionDump struct {
	Name    string    `json:"name"`
	Where   string    `json:"where"` // current | merged
	Root    RootJSON  `json:"root"`
	Tree    *TreeDump `json:"tree"`
	Missing []string  `json:"missing,omitempty"` // referenced objects that do not exist
}

// Layout gives the key prefixes of one table in the bucket.
type Layout struct{ Base string }

// TableLayout returns the layout for an s3_prefix.
func TableLayout(prefix string) Layout {
	p := strings.TrimPrefix(strings.TrimSuffix(prefix, "/"), "/")
	return Layout{Base: strings.TrimPrefix(p+"/s3db-rows/", "/")}
}

func (l Layout) Node(n string) string { return l.Base + "node/" + n }
func (l Layout) Current() string      { return l.Base + "root/current/" }
func (l Layout) Merged() string       { return l.Base + "root/merged/" }

// WalkNodes decodes the tree under link (independent of mast).
func WalkNodes(objs map[string][]byte, l Layout, link *string, bf uint) (*TreeDump, []string) {
	t := &TreeDump{}
	var missing []string
	seen := map[string]bool{}
	var walk func(name string, depth int)
	walk = func(name string, depth int) {
		if depth > t.maxDepth {
			t.maxDepth = depth
		}
		if !seen[name] {
			seen[name] = true
			t.Nodes = append(t.Nodes, name)
		}
		b, ok := objs[l.Node(name)]
		if !ok {
			missing = append(missing, "node/"+name)
			return
		}
		var n v1proto.Node
		if err := proto.Unmarshal(b, &n); err != nil {
			t.Problems = append(t.Problems, fmt.Sprintf("node %s does not decode: %v", name, err))
			return
		}
		if len(n.Key) != len(n.Value) {
			t.Problems = append(t.Problems, fmt.Sprintf("node %s: %d keys, %d values", name, len(n.Key), len(n.Value)))
			return
		}
		if len(n.Link) != 0 && len(n.Link) != len(n.Key)+1 {
			t.Problems = append(t.Problems, fmt.Sprintf("node %s: %d keys, %d links", name, len(n.Key), len(n.Link)))
			return
		}
		if len(n.Key) == 0 && len(n.Link) == 0 {
			t.Problems = append(t.Problems, fmt.Sprintf("node %s has neither keys nor links", name))
		}
		for i := range n.Key {
			if len(n.Link) > 0 && n.Link[i] != "" {
				walk(n.Link[i], depth+1)
			}
			v := n.Value[i]
			t.Entries = append(t.Entries, entryFrom(n.Key[i], v.ModEpochNanos, v.TombstoneSinceEpochNanos, v.PreviousRoot, v.Value))
		}
		if len(n.Link) > 0 && n.Link[len(n.Key)] != "" {
			walk(n.Link[len(n.Key)], depth+1)
		}
	}
	if link != nil && *link != "" {
		walk(*link, 1)
	}
	t.Height = t.maxDepth
	// strict key order in scan order
	for i := 1; i < len(t.Entries); i++ {
		// compare using the implementation's own key order on decoded keys is done by callers that need it;
		// here only exact duplicates are flagged.
		if t.Entries[i].Key == t.Entries[i-1].Key {
			t.Problems = append(t.Problems, "duplicate key in scan order: "+t.Entries[i].Key)
		}
	}
	sort.Strings(t.Nodes)
	return t, missing
}

// WalkVersion decodes a version object (looked up in current/ then merged/).
func WalkVersion(objs map[string][]byte, l Layout, name string) (*VersionDump, error) {
	vd := &VersionDump{Name: name}
	b, ok := objs[l.Current()+name]
	vd.Where = "current"
	if !ok {
		b, ok = objs[l.Merged()+name]
		vd.Where = "merged"
	}
	if !ok {
		return nil, fmt.Errorf("version %s not found", name)
	}
	if err := json.Unmarshal(b, &vd.Root); err != nil {
		return nil, fmt.Errorf("version %s does not decode: %v", name, err)
	}
	vd.Tree, vd.Missing = WalkNodes(objs, l, vd.Root.Link, vd.Root.BranchFactor)
	return vd, nil
}

// Versions lists version names under current/ and merged/.
func Versions(objs map[string][]byte, l Layout) (current, merged []string) {
	for k := range objs {
		if strings.HasPrefix(k, l.Current()) {
			current = append(current, strings.TrimPrefix(k, l.Current()))
		} else if strings.HasPrefix(k, l.Merged()) {
			merged = append(merged, strings.TrimPrefix(k, l.Merged()))
		}
	}
	sort.Strings(current)
	sort.Strings(merged)
	return
}

// LiveDump dumps the in-memory tree of a registered table through its own cursor.
func LiveDump(table string) (*TreeDump, error) {
	vt := s3db.GetTable(table)
	if vt == nil {
		return nil, fmt.Errorf("table %s not registered", table)
	}
	ctx := context.Background()
	cur, err := vt.Tree.Root.Cursor(ctx)
	if err != nil {
		return nil, err
	}
	t := &TreeDump{}
	if vt.Tree.Root.Size() == 0 {
		return t, nil
	}
	if err := cur.Min(ctx); err != nil {
		return nil, err
	}
	for {
		k, v, ok := cur.Get()
		if !ok {
			break
		}
		t.Entries = append(t.Entries, entryFromLive(k.(*s3db.Key), v))
		if err := cur.Forward(ctx); err != nil {
			return nil, err
		}
	}
	return t, nil
}

func entryFromLive(k *s3db.Key, v *crdtpub.Value) Entry {
	row, _ := v.Value.(*v1proto.Row)
	return entryFrom(k.SQLiteValue, v.ModEpochNanos, v.TombstoneSinceEpochNanos, v.PreviousRoot, row)
}
