package engine

import (
	"sort"
	"strings"
)

// Crash-cut enumeration: the mutation log of one transaction is a partial order. A crash state is the
// pre-state plus a down-closed subset of that order (an in-flight request either landed or not; the
// store has no torn objects).
//
// Order assumed (and checked by Shape): program order, except
//   - a maximal run of node PUTs is mutually unordered (mast issues them concurrently and then waits),
//   - retire steps "PUT root/merged/k -> DELETE root/current/k" of different parents are independent chains,
//   - a maximal run of DELETEs of node objects, and of root/merged objects, is an unordered set
//     (vacuum iterates over Go maps).

type mutClass int

const (
	mcOther mutClass = iota
	mcNodePut
	mcVersionPut
	mcRetirePut
	mcRetireDel
	mcNodeDel
	mcMergedDel
)

func classify(m Mutation) mutClass {
	switch {
	case m.Op == "PUT" && strings.Contains(m.Key, "/node/"):
		return mcNodePut
	case m.Op == "PUT" && strings.Contains(m.Key, "/root/current/"):
		return mcVersionPut
	case m.Op == "PUT" && strings.Contains(m.Key, "/root/merged/"):
		return mcRetirePut
	case m.Op == "DELETE" && strings.Contains(m.Key, "/root/current/"):
		return mcRetireDel
	case m.Op == "DELETE" && strings.Contains(m.Key, "/node/"):
		return mcNodeDel
	case m.Op == "DELETE" && strings.Contains(m.Key, "/root/merged/"):
		return mcMergedDel
	}
	return mcOther
}

// group is a set of chains; chains are independent of each other, each chain is ordered.
type group struct {
	chains [][]int
}

func groups(log []Mutation) []group {
	var gs []group
	i := 0
	for i < len(log) {
		c := classify(log[i])
		switch c {
		case mcNodePut, mcNodeDel, mcMergedDel:
			g := group{}
			for i < len(log) && classify(log[i]) == c {
				g.chains = append(g.chains, []int{i})
				i++
			}
			gs = append(gs, g)
		case mcRetirePut, mcRetireDel:
			// collect the whole retire phase; chain per parent name
			byName := map[string][]int{}
			var order []string
			for i < len(log) && (classify(log[i]) == mcRetirePut || classify(log[i]) == mcRetireDel) {
				name := log[i].Key[strings.LastIndex(log[i].Key, "/")+1:]
				if _, ok := byName[name]; !ok {
					order = append(order, name)
				}
				byName[name] = append(byName[name], i)
				i++
			}
			g := group{}
			for _, n := range order {
				g.chains = append(g.chains, byName[n])
			}
			gs = append(gs, g)
		default:
			gs = append(gs, group{chains: [][]int{{i}}})
			i++
		}
	}
	return gs
}

// Cuts returns every down-closed subset of the log (as sorted index lists), including the empty and the
// complete one. exhaustive is false when a group was too large and only its prefixes (in observed order)
// and single omissions were generated.
// CutCap is the largest number of down-closed subsets enumerated for one group.
var CutCap = 1 << 12

func Cuts(log []Mutation) (cuts [][]int, exhaustive bool) {
	exhaustive = true
	gs := groups(log)
	var done []int
	cuts = append(cuts, []int{})
	for _, g := range gs {
		// all down-closed subsets of this group = product of chain prefixes
		total := 1
		for _, ch := range g.chains {
			total *= len(ch) + 1
			if total > CutCap {
				break
			}
		}
		var all []int
		for _, ch := range g.chains {
			all = append(all, ch...)
		}
		sort.Ints(all)
		if total > CutCap {
			exhaustive = false
			for k := 1; k <= len(all); k++ {
				cuts = append(cuts, append(append([]int{}, done...), all[:k]...))
			}
			for k := range all {
				s := append([]int{}, done...)
				for j, x := range all {
					if j != k {
						s = append(s, x)
					}
				}
				cuts = append(cuts, s)
				// and each element alone: losing or keeping an object is monotone for readability (a version
				// is unreadable iff some object it references is missing), so a harmful subset of an
				// unordered DELETE set has a harmful singleton
				if len(all) > 1 {
					cuts = append(cuts, append(append([]int{}, done...), all[k]))
				}
			}
		} else {
			idx := make([]int, len(g.chains))
			var rec func(c int)
			rec = func(c int) {
				if c == len(g.chains) {
					empty := true
					s := append([]int{}, done...)
					for ci, ch := range g.chains {
						if idx[ci] > 0 {
							empty = false
						}
						s = append(s, ch[:idx[ci]]...)
					}
					if !empty {
						sort.Ints(s)
						cuts = append(cuts, s)
					}
					return
				}
				for k := 0; k <= len(g.chains[c]); k++ {
					idx[c] = k
					rec(c + 1)
				}
			}
			rec(0)
		}
		done = append(done, all...)
	}
	return cuts, exhaustive
}

// Shape renders the class sequence of a log (for evidence and for detecting an unexpected order).
func Shape(log []Mutation) string {
	names := map[mutClass]string{mcOther: "other", mcNodePut: "N", mcVersionPut: "V", mcRetirePut: "Rp", mcRetireDel: "Rd", mcNodeDel: "Dn", mcMergedDel: "Dm"}
	var parts []string
	for _, m := range log {
		parts = append(parts, names[classify(m)])
	}
	return strings.Join(parts, " ")
}

// ApplyCut returns pre-state + the chosen mutations (applied in log order).
func ApplyCut(pre map[string][]byte, log []Mutation, cut []int) map[string][]byte {
	out := make(map[string][]byte, len(pre)+len(cut))
	for k, v := range pre {
		out[k] = v
	}
	for _, i := range cut {
		log[i].Apply(out)
	}
	return out
}
