package engine

import (
	"database/sql"
	"encoding/hex"
	"errors"
	"fmt"
	"math"
	"os"
	"sort"
	"strconv"
	"strings"
	"sync"
	"time"

	"github.com/jrhy/s3db"
	"github.com/jrhy/s3db/kv"
	sqlite3 "github.com/mattn/go-sqlite3"

	// register the s3db extension and autoload it in every connection
	_ "github.com/jrhy/s3db/sqlite"
	_ "github.com/jrhy/s3db/sqlite/sqlite-autoload-extension"
)

func init() {
	os.Setenv("AWS_REGION", "dummy")
	os.Setenv("AWS_ACCESS_KEY_ID", "dummy")
	os.Setenv("AWS_SECRET_ACCESS_KEY", "dummy")
	os.Unsetenv("AWS_CA_BUNDLE")
	os.Setenv("AWS_EC2_METADATA_DISABLED", "true")
	installHooks()
}

// Epoch is the origin of the logical clock (whole seconds, far from "now").
var Epoch = time.Date(2021, 1, 1, 0, 0, 0, 0, time.UTC)

// T returns Epoch + n seconds.
func T(n int) time.Time { return Epoch.Add(time.Duration(n) * time.Second) }

// TS formats a time the way s3db_conn / s3db_vacuum expect it.
func TS(t time.Time) string { return t.UTC().Format(s3db.SQLiteTimeFormat) }

const EndpointScheme = "verif://"

// SharedEndpoint is the endpoint name that resolves to the running client's handle (TableOpts.SharedEndpoint).
// Only for worlds in which one client runs at a time (sequential worlds and the scheduler).
const SharedEndpoint = "shared-endpoint"

// World is one closed system: a bucket, a logical clock and a set of SQL clients.
type World struct {
	B       *Bucket
	Clients map[string]*Client
	handles map[string]*Handle

	mu      sync.Mutex
	clockOn bool
	now     time.Time
	// ClockFor, when set, resolves a per-caller clock (scheduler engine).
	ClockFor func() *Clock

	RootOrder   func([]string) []string
	RetireOrder func([]string) []string
	// DeleteDescending reverses the (otherwise ascending) order in which vacuum deletes objects.
	DeleteDescending bool
	// FrozenClock: reading the logical clock does not advance it; time only moves with SetClock. Every version
	// created within one event then carries exactly the event's (whole-second) time, which makes "created exactly
	// at the cutoff" reachable for cutoffs of second resolution.
	FrozenClock bool

	active string // name of the client that runs (see SharedEndpoint)

	id int
}

// Clock is a logical clock: every read advances it by one microsecond.
type Clock struct {
	mu  sync.Mutex
	now time.Time
}

func (c *Clock) Set(t time.Time) { c.mu.Lock(); c.now = t; c.mu.Unlock() }
func (c *Clock) Read() time.Time {
	c.mu.Lock()
	defer c.mu.Unlock()
	t := c.now
	c.now = c.now.Add(time.Microsecond)
	return t
}

var (
	curMu   sync.Mutex
	cur     *World
	worldNo int
)

func current() *World {
	curMu.Lock()
	defer curMu.Unlock()
	return cur
}

func installHooks() {
	s3db.VerifDeterministicMarshal = true
	kv.VerifS3 = func(S3 kv.S3Interface, st *kv.S3BucketInfo) kv.S3Interface {
		if st == nil || !strings.HasPrefix(st.EndpointURL, EndpointScheme) {
			return S3
		}
		w := current()
		if w == nil {
			panic("verif: s3 endpoint " + st.EndpointURL + " used outside a world")
		}
		name := strings.TrimPrefix(st.EndpointURL, EndpointScheme)
		w.mu.Lock()
		if name == SharedEndpoint {
			// all clients name the same endpoint (as real deployments do, so that process-wide state keyed by
			// the object URL is really shared); the handle is the one of the client that is running
			name = w.active
		}
		h := w.handles[name]
		w.mu.Unlock()
		if h == nil {
			panic("verif: unknown client " + name)
		}
		return h
	}
	kv.VerifWhen = func(when time.Time) time.Time {
		if w := current(); w != nil {
			if t, ok := w.readClock(); ok {
				return t
			}
		}
		return when
	}
	kv.VerifRootOrder = func(roots []string) []string {
		w := current()
		if w == nil {
			return roots
		}
		s := append([]string{}, roots...)
		sort.Strings(s)
		if w.RootOrder != nil {
			return w.RootOrder(s)
		}
		return s
	}
	kv.VerifRetireOrder = func(roots []string) []string {
		w := current()
		if w == nil || w.RetireOrder == nil {
			return roots
		}
		return w.RetireOrder(roots)
	}
	kv.VerifDeleteOrder = func(names []string) []string {
		// vacuum collects what it deletes in maps: fix the order (ascending; descending when the world says so)
		s := append([]string{}, names...)
		sort.Strings(s)
		if w := current(); w != nil && w.DeleteDescending {
			sort.Sort(sort.Reverse(sort.StringSlice(s)))
		}
		return s
	}
	s3db.VerifNow = func() (time.Time, bool) {
		if w := current(); w != nil {
			return w.readClock()
		}
		return time.Time{}, false
	}
}

func (w *World) readClock() (time.Time, bool) {
	if w.ClockFor != nil {
		if c := w.ClockFor(); c != nil {
			return c.Read(), true
		}
	}
	w.mu.Lock()
	defer w.mu.Unlock()
	if !w.clockOn {
		return time.Time{}, false
	}
	t := w.now
	if !w.FrozenClock {
		w.now = w.now.Add(time.Microsecond)
	}
	return t, true
}

// SetClock switches the logical clock on and sets it.
func (w *World) SetClock(t time.Time) {
	w.mu.Lock()
	w.clockOn = true
	w.now = t
	w.mu.Unlock()
}

// ClockOff returns to the wall clock.
func (w *World) ClockOff() { w.mu.Lock(); w.clockOn = false; w.mu.Unlock() }

// NewWorld creates a world on a fresh bucket and makes it current.
func NewWorld() *World { return NewWorldOn(NewBucket()) }

func NewWorldOn(b *Bucket) *World {
	Beat() // every execution starts with a fresh world: progress signal for the parent's watchdog
	curMu.Lock()
	worldNo++
	w := &World{B: b, Clients: map[string]*Client{}, handles: map[string]*Handle{}, id: worldNo}
	cur = w
	curMu.Unlock()
	return w
}

// Close closes all clients. When called as a deferred function while a panic is unwinding (a Go panic
// inside an SQLite callback abandons C frames that may hold SQLite's mutexes) it does not touch SQLite:
// it marks the process as poisoned and lets the panic continue.
func (w *World) Close() {
	if p := recover(); p != nil {
		Poisoned = true
		panic(p)
	}
	if Poisoned {
		return
	}
	w.mu.Lock()
	var cs []*Client
	for _, c := range w.Clients {
		cs = append(cs, c)
	}
	w.mu.Unlock()
	for _, c := range cs {
		c.Close()
	}
	curMu.Lock()
	if cur == w {
		cur = nil
	}
	curMu.Unlock()
}

// Handle returns (creating if needed) the object-store handle of a client name.
func (w *World) Handle(name string) *Handle {
	w.mu.Lock()
	defer w.mu.Unlock()
	h := w.handles[name]
	if h == nil {
		h = w.B.Handle(name)
		w.handles[name] = h
	}
	return h
}

// Client is one SQLite connection with the s3db extension loaded.
type Client struct {
	W    *World
	Name string
	H    *Handle
	DB   *sql.DB
	Tab  string // physical name substituted for {T}
}

// NewClient opens a new SQLite connection for the named client. If a client
// of that name exists it is closed first (a re-open).
func (w *World) NewClient(name string) *Client {
	w.mu.Lock()
	old := w.Clients[name]
	w.mu.Unlock()
	if old != nil {
		old.Close()
	}
	db, err := sql.Open("sqlite3", ":memory:")
	if err != nil {
		panic(err)
	}
	db.SetMaxOpenConns(1)
	db.SetMaxIdleConns(1)
	db.SetConnMaxLifetime(0)
	worldNoMu.Lock()
	tabNo++
	n := tabNo
	worldNoMu.Unlock()
	c := &Client{W: w, Name: name, H: w.Handle(name), DB: db, Tab: fmt.Sprintf("t%d_%s", n, name)}
	w.mu.Lock()
	w.Clients[name] = c
	w.mu.Unlock()
	return c
}

// SetActive names the client that is running now (resolves SharedEndpoint).
func (w *World) SetActive(name string) {
	w.mu.Lock()
	w.active = name
	w.mu.Unlock()
}

// Lookup returns the open client of that name, or nil.
func (w *World) Lookup(name string) *Client {
	w.mu.Lock()
	defer w.mu.Unlock()
	return w.Clients[name]
}

var (
	worldNoMu sync.Mutex
	tabNo     int
)

func (c *Client) Close() {
	if c.DB != nil {
		c.DB.Close()
		c.DB = nil
	}
	c.W.mu.Lock()
	if c.W.Clients[c.Name] == c {
		delete(c.W.Clients, c.Name)
	}
	c.W.mu.Unlock()
}

// TableOpts describes a CREATE VIRTUAL TABLE ... USING s3db.
type TableOpts struct {
	Columns  string // e.g. "a primary key, b, c"
	Prefix   string // s3_prefix (default "p")
	EPN      int    // entries_per_node, 0 = default
	Cache    int    // node_cache_entries, 0 = none
	ReadOnly bool
	Suffix   string // physical name = {T}+Suffix
	// SharedEndpoint: name the same s3_endpoint as every other client that sets it (see SharedEndpoint)
	SharedEndpoint bool
}

func (c *Client) sub(q string) string { return strings.ReplaceAll(q, "{T}", c.Tab) }

// CreateSQL renders the CREATE VIRTUAL TABLE statement.
func (c *Client) CreateSQL(o TableOpts) string {
	if o.Prefix == "" {
		o.Prefix = "p"
	}
	if o.Columns == "" {
		o.Columns = "a primary key, b, c"
	}
	ep := c.Name
	if o.SharedEndpoint {
		ep = SharedEndpoint
	}
	s := fmt.Sprintf("create virtual table {T}%s using s3db (columns='%s', s3_bucket='bk', s3_endpoint='%s%s', s3_prefix='%s'",
		o.Suffix, o.Columns, EndpointScheme, ep, o.Prefix)
	if o.EPN > 0 {
		s += fmt.Sprintf(", entries_per_node=%d", o.EPN)
	}
	if o.Cache > 0 {
		s += fmt.Sprintf(", node_cache_entries=%d", o.Cache)
	}
	if o.ReadOnly {
		s += ", readonly"
	}
	return s + ")"
}

// Create creates the client's s3db table.
func (c *Client) Create(o TableOpts) error { return c.Exec(c.CreateSQL(o)) }

// Exec runs a statement; {T} is replaced by the client's table name.
func (c *Client) Exec(q string, args ...interface{}) error {
	c.W.SetActive(c.Name)
	_, err := c.DB.Exec(c.sub(q), args...)
	return err
}

// Affected runs a statement and returns the number of rows changed.
func (c *Client) Affected(q string, args ...interface{}) (int64, error) {
	c.W.SetActive(c.Name)
	r, err := c.DB.Exec(c.sub(q), args...)
	if err != nil {
		return 0, err
	}
	n, _ := r.RowsAffected()
	return n, nil
}

// Rows is a query result rendered canonically, one string per row.
type Rows []string

func (r Rows) String() string { return "[" + strings.Join(r, " ; ") + "]" }

func (r Rows) Equal(o Rows) bool {
	if len(r) != len(o) {
		return false
	}
	for i := range r {
		if r[i] != o[i] {
			return false
		}
	}
	return true
}

// Sorted returns a sorted copy.
func (r Rows) Sorted() Rows {
	s := append(Rows{}, r...)
	sort.Strings(s)
	return s
}

// Render renders one driver value with its storage class.
func Render(v interface{}) string {
	switch x := v.(type) {
	case nil:
		return "NULL"
	case int64:
		return "i" + strconv.FormatInt(x, 10)
	case float64:
		if x == math.Trunc(x) && math.Abs(x) < 1e15 && !(x == 0 && math.Signbit(x)) {
			return "r" + strconv.FormatFloat(x, 'f', 1, 64)
		}
		return "r" + strconv.FormatFloat(x, 'g', -1, 64) + "#" + strconv.FormatUint(math.Float64bits(x), 16)
	case string:
		return "t'" + x + "'"
	case []byte:
		return "bx" + hex.EncodeToString(x)
	case bool:
		if x {
			return "i1"
		}
		return "i0"
	case time.Time:
		return "T" + x.UTC().Format(time.RFC3339Nano)
	default:
		return fmt.Sprintf("?%T:%v", v, v)
	}
}

// Query runs a query and renders all rows.
func (c *Client) Query(q string, args ...interface{}) (Rows, error) {
	c.W.SetActive(c.Name)
	rs, err := c.DB.Query(c.sub(q), args...)
	if err != nil {
		return nil, err
	}
	defer rs.Close()
	cols, err := rs.Columns()
	if err != nil {
		return nil, err
	}
	out := Rows{}
	for rs.Next() {
		vals := make([]interface{}, len(cols))
		ptrs := make([]interface{}, len(cols))
		for i := range vals {
			ptrs[i] = &vals[i]
		}
		if err := rs.Scan(ptrs...); err != nil {
			return out, err
		}
		parts := make([]string, len(vals))
		for i, v := range vals {
			parts[i] = Render(v)
		}
		out = append(out, strings.Join(parts, "|"))
	}
	if err := rs.Err(); err != nil {
		return out, err
	}
	return out, nil
}

// QueryScalar returns the single value of a one-row one-column query, rendered.
func (c *Client) QueryScalar(q string, args ...interface{}) (string, error) {
	r, err := c.Query(q, args...)
	if err != nil {
		return "", err
	}
	if len(r) != 1 {
		return "", fmt.Errorf("expected one row, got %d", len(r))
	}
	return r[0], nil
}

// Text strips the rendering of a text value: t'abc' -> abc.
func Text(r string) string {
	if strings.HasPrefix(r, "t'") && strings.HasSuffix(r, "'") {
		return r[2 : len(r)-1]
	}
	return r
}

// ErrClass classifies a statement outcome: "ok", "pk", "notnull", "constraint", "err".
func ErrClass(err error) string {
	if err == nil {
		return "ok"
	}
	var se sqlite3.Error
	if errors.As(err, &se) {
		switch se.ExtendedCode {
		case sqlite3.ErrConstraintPrimaryKey, sqlite3.ErrConstraintUnique:
			return "pk"
		case sqlite3.ErrConstraintNotNull:
			return "notnull"
		}
		if se.Code == sqlite3.ErrConstraint {
			return "constraint"
		}
	}
	return "err"
}

// SetWriteTime sets the connection's write_time attribute.
func (c *Client) SetWriteTime(t time.Time) error {
	return c.Exec("update s3db_conn set write_time=?", TS(t))
}

// Version returns s3db_version() of the client's table.
func (c *Client) Version() (string, error) {
	v, err := c.QueryScalar("select s3db_version('" + c.Tab + "')")
	return Text(v), err
}

// Refresh calls s3db_refresh on the client's table.
func (c *Client) Refresh() error {
	_, err := c.Query("select s3db_refresh('" + c.Tab + "')")
	return err
}

// Vacuum runs s3db_vacuum and returns the vacuum_error column ("" if none).
func (c *Client) Vacuum(before time.Time) (string, error) {
	r, err := c.Query("select vacuum_error from s3db_vacuum('"+c.Tab+"', ?)", TS(before))
	if err != nil {
		return "", err
	}
	if len(r) == 1 && r[0] != "NULL" {
		return Text(r[0]), nil
	}
	return "", nil
}

// Diff summarises the difference between two row lists (only-in-want / only-in-got / order).
func Diff(want, got Rows) string {
	w := map[string]int{}
	for _, r := range want {
		w[r]++
	}
	var onlyGot, onlyWant []string
	for _, r := range got {
		if w[r] > 0 {
			w[r]--
		} else {
			onlyGot = append(onlyGot, r)
		}
	}
	for _, r := range want {
		if w[r] > 0 {
			w[r]--
			onlyWant = append(onlyWant, r)
		}
	}
	if len(onlyGot) == 0 && len(onlyWant) == 0 {
		return fmt.Sprintf("same rows, different order: want=%v got=%v", want, got)
	}
	return fmt.Sprintf("missing=%v unexpected=%v (want %d rows, got %d)", onlyWant, onlyGot, len(want), len(got))
}

// MakeCurrent makes w the world that the hooks resolve clients in (after another world was used meanwhile).
func (w *World) MakeCurrent() {
	curMu.Lock()
	cur = w
	curMu.Unlock()
}
