package engine

import (
	"encoding/json"
	"os"
	"testing"
	"time"
)

// The watchdog must fire on a case that makes no progress, must not fire on a case that is merely long,
// and a case that runs past the run's budget must come back as incomplete, not as dead.

func TestMain(m *testing.M) {
	RegisterWorker("t-hang", func(json.RawMessage) *Result { select {} })
	RegisterWorker("t-long", func(json.RawMessage) *Result {
		res := &Result{}
		for i := 0; i < 40; i++ { // 4 s of work, far beyond the 1 s watchdog of the test
			time.Sleep(100 * time.Millisecond)
			res.Execs++
			if Beat() {
				break
			}
		}
		return res
	})
	if len(os.Args) > 1 && os.Args[1] == "worker" {
		BeatEvery = 200 * time.Millisecond
		WorkerMain()
		return
	}
	os.Exit(m.Run())
}

func TestWatchdog(t *testing.T) {
	old := CaseTimeout
	CaseTimeout = time.Second
	defer func() { CaseTimeout = old }()

	r := RunOne("t-hang", J(1))
	if !r.Died || !r.TimedOut {
		t.Fatalf("a silent hang must be killed by the watchdog: %+v", r)
	}
	r = RunOne("t-long", J(1))
	if r.Died || r.Incomplete || r.Execs != 40 {
		t.Fatalf("a long case that keeps making progress must complete: %+v", r)
	}
	RunDeadline = time.Now().Add(1500 * time.Millisecond).UnixNano()
	r = RunOne("t-long", J(1))
	RunDeadline = 0
	if r.Died || !r.Incomplete || r.Execs == 0 || r.Execs >= 40 {
		t.Fatalf("a case that runs past the budget must come back incomplete: %+v", r)
	}
}
