package engine

import (
	"crypto/sha256"
	"encoding/hex"
	"fmt"
	"strings"
	"sync"
	"time"
)

// Request-level controlled scheduler (engine E2).
//
// Every client is a goroutine with its own SQLite connection and its own object-store handle. A handle
// calls Point before every *visible* request (LIST, and anything under root/); statement boundaries are
// points too. Exactly one client runs at a time: the scheduler grants one client and waits until that
// client reaches its next point or finishes, so no other goroutine can interleave and quiescence is
// trivial. Node requests (content-addressed, invisible until a version object refers to them) are not
// points (sound partial-order reduction, see DESIGN 2.4).

// SchedClient is one concurrent client.
type SchedClient struct {
	Name string
	// Run is the client's program. It calls s.Boundary(c, label) between statements.
	Run   func(s *Sched, c *SchedClient)
	Clock *Clock
	H     *Handle
	// OnGrant is called in the client's goroutine right after a point of this client was granted.
	OnGrant func(label string)

	at      chan string   // client -> scheduler: "I am at a point" (label) or "" when finished
	grant   chan struct{} // scheduler -> client
	done    bool
	atPoint string
	obs     []string // everything this client observed (responses), for the state key
	Out     map[string]interface{}
	panicv  interface{}
}

// Sched runs one schedule.
type Sched struct {
	W       *World
	Clients []*SchedClient
	// Choices is the prefix to replay; beyond it choice 0 is taken.
	Choices []int
	// Trace of this execution.
	Taken   []int      // choice index taken at every decision
	Enabled [][]string // enabled client names at every decision (canonical order)
	Labels  []string   // label of the point that was granted
	Keys    []string   // global state key at every decision
	// CanContinue[i]: at decision i the client that ran last was still enabled (it is Enabled[i][0]).
	CanContinue []bool
	running     int // index of the client that ran last
	mu          sync.Mutex
	Deadlock    bool
	Stuck       string // the client that was granted and never came back (when Deadlock)
	// StopAt, when set, is consulted at every decision beyond the prefix; returning true ends the run early
	// (state already explored).
	StopAt func(key string) bool
	Pruned bool
	// Visible decides whether a request is a scheduling point.
	Visible func(r *Req) bool
	// OracleState is mixed into the state key (history facts the oracle depends on).
	OracleState func() string
	// Stall is how long the granted client may run without reaching its next point or finishing before the
	// execution is declared stuck (Deadlock). Default CaseTimeout/2. A client that waits for another, parked,
	// client through something the scheduler does not control shows up this way.
	Stall time.Duration
}

// DefaultVisible: LIST and everything under root/.
func DefaultVisible(r *Req) bool {
	return r.Op == "LIST" || strings.Contains(r.Key, "/root/")
}

func (s *Sched) stall() time.Duration {
	if s.Stall > 0 {
		return s.Stall
	}
	return CaseTimeout / 2
}

// Boundary marks a statement boundary of client c (a scheduling point).
func (s *Sched) Boundary(c *SchedClient, label string) { s.point(c, "| "+label) }

// Observe records something the client saw (goes into the state key).
func (c *SchedClient) Observe(format string, a ...interface{}) {
	c.obs = append(c.obs, fmt.Sprintf(format, a...))
}

func (s *Sched) point(c *SchedClient, label string) {
	c.at <- label
	<-c.grant
	if c.OnGrant != nil {
		c.OnGrant(label)
	}
}

// Execute runs all clients under the schedule given by Choices.
func (s *Sched) Execute() {
	if s.Visible == nil {
		s.Visible = DefaultVisible
	}
	for _, c := range s.Clients {
		c := c
		c.at = make(chan string)
		c.grant = make(chan struct{})
		c.Out = map[string]interface{}{}
		if c.Clock == nil {
			c.Clock = &Clock{}
		}
		c.H = s.W.Handle(c.Name)
		c.H.Point = func(r *Req) {
			if s.Visible(r) {
				c.Observe("req %s %s", r.Op, r.Key)
				s.point(c, r.Op+" "+r.Key)
			}
		}
	}
	cur := -1
	s.W.ClockFor = func() *Clock {
		if cur >= 0 {
			return s.Clients[cur].Clock
		}
		return nil
	}
	defer func() { s.W.ClockFor = nil }()
	// start every client in turn and let it run to its first point
	waitFor := func(i int) {
		c := s.Clients[i]
		select {
		case l := <-c.at:
			if l == "" {
				c.done = true
				c.atPoint = ""
			} else {
				c.atPoint = l
			}
		case <-time.After(s.stall()):
			s.Deadlock = true
			s.Stuck = c.Name
		}
	}
	for i, c := range s.Clients {
		cur = i
		c := c
		go func() {
			defer func() {
				if p := recover(); p != nil {
					c.panicv = p
					Poisoned = true
				}
				c.at <- ""
			}()
			c.Run(s, c)
		}()
		waitFor(i)
		if s.Deadlock {
			return
		}
	}
	s.running = -1
	for {
		// enabled clients in canonical order: the one that ran last first, then ascending
		var en []int
		if s.running >= 0 && !s.Clients[s.running].done {
			en = append(en, s.running)
		}
		for i, c := range s.Clients {
			if !c.done && i != s.running {
				en = append(en, i)
			}
		}
		if len(en) == 0 {
			return
		}
		d := len(s.Taken)
		key := s.stateKey()
		if d >= len(s.Choices) && s.StopAt != nil && len(en) > 1 && s.StopAt(key) {
			s.Pruned = true
			s.abort()
			return
		}
		choice := 0
		if d < len(s.Choices) {
			choice = s.Choices[d]
			if choice >= len(en) {
				panic(fmt.Sprintf("sched: replay divergence at decision %d: choice %d of %d enabled", d, choice, len(en)))
			}
		}
		names := make([]string, len(en))
		for i, x := range en {
			names[i] = s.Clients[x].Name
		}
		i := en[choice]
		s.Taken = append(s.Taken, choice)
		s.Enabled = append(s.Enabled, names)
		s.Labels = append(s.Labels, s.Clients[i].Name+": "+s.Clients[i].atPoint)
		s.Keys = append(s.Keys, key)
		s.CanContinue = append(s.CanContinue, s.running >= 0 && en[0] == s.running)
		s.running = i
		cur = i
		s.Clients[i].grant <- struct{}{}
		waitFor(i)
		if s.Deadlock {
			return
		}
	}
}

// abort lets every blocked client run to completion sequentially (results are discarded).
func (s *Sched) abort() {
	for {
		progressed := false
		for i, c := range s.Clients {
			if c.done {
				continue
			}
			progressed = true
			c.grant <- struct{}{}
			select {
			case l := <-c.at:
				if l == "" {
					c.done = true
				}
			case <-time.After(s.stall()):
				s.Deadlock = true
				return
			}
			_ = i
		}
		if !progressed {
			return
		}
	}
}

func (s *Sched) stateKey() string {
	h := sha256.New()
	fmt.Fprintf(h, "B%s|", s.W.B.Hash())
	for _, c := range s.Clients {
		fmt.Fprintf(h, "%s:%v:%s:%d:", c.Name, c.done, c.atPoint, len(c.obs))
		for _, o := range c.obs {
			fmt.Fprintf(h, "%s;", o)
		}
		fmt.Fprintf(h, "L%s@%d|", s.W.B.ClientLogDigest(c.Name), c.Clock.peek())
	}
	if s.OracleState != nil {
		fmt.Fprintf(h, "O%s", s.OracleState())
	}
	return hex.EncodeToString(h.Sum(nil)[:12])
}

func (c *Clock) peek() int64 { c.mu.Lock(); defer c.mu.Unlock(); return c.now.UnixNano() }

// Preemptions counts, among the first n decisions, the switches away from a client that could have continued.
func (s *Sched) Preemptions(n int) int {
	p := 0
	for i := 0; i < n && i < len(s.Taken); i++ {
		if s.CanContinue[i] && s.Taken[i] != 0 {
			p++
		}
	}
	return p
}

// Panicked returns the first client panic, if any.
func (s *Sched) Panicked() (string, interface{}) {
	for _, c := range s.Clients {
		if c.panicv != nil {
			return c.Name, c.panicv
		}
	}
	return "", nil
}

// Explore runs a depth-first search over all schedules. mk builds a fresh system for one execution and
// returns the scheduler (not yet executed); check evaluates one complete execution. bound < 0 means
// unbounded preemptions. It returns (executions, pruned executions, distinct states).
func Explore(mk func(choices []int) *Sched, check func(s *Sched), bound int, prune bool, over func() bool) (execs, pruned, states int, complete bool) {
	visited := map[string]bool{}
	complete = true
	var rec func(prefix []int)
	rec = func(prefix []int) {
		if over != nil && over() {
			complete = false
			return
		}
		s := mk(prefix)
		if prune {
			s.StopAt = func(key string) bool {
				if visited[key] {
					return true
				}
				visited[key] = true
				return false
			}
		}
		s.Execute()
		execs++
		if s.Pruned {
			pruned++
		} else {
			check(s)
		}
		if !prune {
			for _, k := range s.Keys {
				visited[k] = true
			}
		}
		for i := len(prefix); i < len(s.Taken); i++ {
			for alt := 1; alt < len(s.Enabled[i]); alt++ {
				np := append(append([]int{}, s.Taken[:i]...), alt)
				if bound >= 0 {
					cost := s.Preemptions(i)
					if s.CanContinue[i] {
						cost++ // switching away from a client that could continue
					}
					if cost > bound {
						continue
					}
				}
				rec(np)
			}
		}
	}
	rec(nil)
	return execs, pruned, len(visited), complete
}
