#!/usr/bin/env python3
"""Regenerates MANIFEST.json from the table below (run after adding a check)."""
import json, subprocess

HOOK_COMMITS = ["102a258", "f921dc1", "5968ef4"]

CHECKS = {
 "C13": dict(level="model_checking", engine="E1-sequences",
   technique="exhaustive enumeration of all operation sequences (depth 3/4) over the read-only surface on the real SQLite extension + store-level invariant on the fake object store",
   text="Every sequence of read-only-surface operations (queries, write attempts, transactions, refresh, version, changes, vacuum, a concurrent real writer) up to depth 3 (quick) / 4 (thorough) is executed on the real extension for every base bucket state (0..3 unmerged heads with/without delete markers, two heads with identical content, ancestor+descendant both under root/current; entries_per_node 2 and 4096); the fake store flags any PUT/DELETE by the read-only handle. Exhaustive within those bounds, which cover every code path guarded by the readonly flag.",
   note="Trusted: fake store models S3 (atomic objects, strong consistency); SQLite/go-sqlite3 as linked; sequential clients only (concurrency is C03/C19).",
   ref="§5 C13"),
}

CHECKS["C06"] = dict(level="model_checking", engine="E1-bfs",
   technique="explicit-state breadth-first search to closure over a finite key/value domain on the real extension, differential oracle against a native WITHOUT ROWID table in the same SQLite connection",
   text="All reachable states of (s3db table, native mirror) over a finite key domain (4-9 keys incl. a mixed-storage-class set) and value domain are enumerated to closure for every configuration (entries_per_node 2/3/4/4096 x node cache 0/100, plus NOT NULL column, key declared as last column, and all statements at one constant write_time); every mutation statement is applied from every state and outcome class, affected-row count and full contents are compared; at every state a battery of ~400 SELECTs (all key comparison operators, two-sided/contradictory ranges, IN, BETWEEN, NULL operands, ORDER BY asc/desc/non-key, LIMIT, aggregates, joins) is compared on the live connection and on a fresh connection that re-opens the table from the bucket.",
   note="Trusted: SQLite's native table as reference; strictly increasing logical write times; typeless columns. Values outside the finite domains are not covered.",
   ref="§5 C06")

CHECKS["C16"] = dict(level="model_checking", engine="E1-bfs",
   technique="explicit-state breadth-first search to closure (C06 state space); per (state, mutation): pre-commit in-memory dump vs independent protobuf/JSON walker of the bucket vs fresh connection; store immutability invariant; request-log check for no-change commits",
   text="For every reachable table state over the finite domains and every configuration (entries_per_node 2/3/4/4096 so that trees of depth 0,1,2+ with sparse interior nodes occur; node cache 0/100), every mutation is run as BEGIN; m; COMMIT and the acknowledged version is checked from the bucket alone: every referenced object exists and decodes, arity and absent links are consistent, keys strictly increase, size/height match, the decoded tree equals the writer's dirty in-memory tree field by field (values, all timestamps, tombstone and previous-version fields), a fresh connection loads the same tree and answers full scans and point lookups, no object name is ever re-written with different bytes, and a no-change commit writes nothing.",
   note="Trusted: the walker's decoding uses only the generated protobuf types and encoding/json; 'fresh process' is a fresh connection with its own (empty) node cache in the same OS process.",
   ref="§5 C16")

CHECKS["C07"] = dict(level="exploration", engine="E4-domain",
   technique="exhaustive enumeration of all pairs/triples over a boundary alphabet of key values against SQLite's own comparison, and of all ordered insert pairs end-to-end on multi-level trees against a native table",
   text="Over a boundary alphabet of 39 (quick) / 86 (thorough) key values of all storage classes (int64 limits, +-2^53+-1, +-0, +-inf, 2^63 as real, empty/non-ASCII text, blobs): every ordered pair is compared with the result of SQLite's own comparison of the bound values and checked for antisymmetry and Layer agreement of equal keys (branch factors 2,3,4,16,4096); every triple is checked for transitivity; every ordered pair is inserted end to end into a pre-filled multi-level tree (entries_per_node 2,3[,4,16],4096) and outcome plus ORDER BY result compared with a native table, also from a fresh connection; NULL keys must be rejected without changing the table.",
   note="Trusted: SQLite's comparison of bound values as the reference order. Only alphabet values are covered (bounded input-domain enumeration, not a proof over all int64/float64).",
   ref="§5 C07")

CHECKS["C08"] = dict(level="exploration", engine="E4-domain",
   technique="exhaustive enumeration of a boundary value alphabet x position x rows-per-object, each observed at 8 life-cycle stages on the real extension against a native table",
   text="Every value of the boundary alphabet (all storage classes incl. int64 limits, +-0, +-inf, values beyond 2^53, empty/non-ASCII/embedded-NUL/invalid-UTF-8 text, empty/1 KiB/70 KiB blobs and text, expression-produced values) is written in key and non-key position and read back with typeof() and bit-exact rendering inside the transaction, after commit, from a fresh connection, after a later UPDATE of another column of the row (row re-timed), after a merge with two other writers (a concurrent later UPDATE of another column, an unrelated row, an older conflicting insert that must lose), after vacuum and from a fresh connection after vacuum, for entries_per_node 2[,3],4096; unmentioned columns must read NULL; a refused value must be an error and leave the table as before. Oracle: a native table given the same statements.",
   note="Trusted: SQLite native table as reference; go-sqlite3 driver value mapping is the same on both sides. Values outside the alphabet are not covered.",
   ref="§5 C08")

CHECKS["C20"] = dict(level="exploration", engine="E4-domain",
   technique="exhaustive enumeration of grammar-generated CREATE VIRTUAL TABLE argument lists on the real extension against a small reference parser of the documented grammar",
   text="About 11k (quick) / 22k (thorough) argument lists generated from the documented grammar (1-3 column definitions over names incl. quoted names and names differing in case, types, constraints incl. UNIQUE/DEFAULT, table-level keys incl. composite and unknown columns; option spellings valid, malformed, valueless, duplicated, unknown; missing/empty columns; three quoting styles). Accepted definitions must declare exactly the specified names/order/key/NOT NULL (pragma_table_xinfo), be usable by those names, reject duplicate and NULL keys and honour NOT NULL; rejected ones must return an error, leave no table registered (a following valid CREATE with the same name succeeds, s3db_version says not found) and write nothing to the store.",
   note="Trusted: the reference parser encodes the README grammar; where the documentation is silent (key reference differing from the column name only in case, trailing comma) either outcome is accepted. entries_per_node=1 is not exercised.",
   ref="§5 C20")

CHECKS["C01"] = dict(level="model_checking", engine="E1-histories",
   technique="exhaustive enumeration of all multi-writer statement histories up to a depth (all write-time orders, writer assignments, refresh/merging-open placements and version-list permutations) executed on the real extension; convergence oracles on every reached state",
   text="Every history of up to 3 (quick) / 4 (thorough) statements over {INSERT(b,c), INSERT(b), UPDATE b, UPDATE c, UPDATE b+c, DELETE} by up to 3 writers, with every assignment of distinct write-time ranks (so decreasing times occur), every canonical assignment to writers, two base states, and up to one refresh or merging open by a fresh client at every position with every permutation of the version list at that open (hook H3), is executed on the real code. At the end of each: a read-only open under every permutation of the heads shows the same rows; resurrecting every retired ancestor (subsets up to 3 in thorough) and merging it again in both orders changes nothing; a read-write open keeps the rows and a second one issues no PUT/DELETE and leaves the object set unchanged; across histories, equal sets of statement-bearing versions (by canonical content) show equal rows. Thorough adds two keys on multi-level trees (entries_per_node=2).",
   note="Trusted: fake store = S3 consistency; clients run sequentially (request interleavings are C03); write-time ties are outside the property. Bounded: nothing is claimed beyond the stated depth.",
   ref="§5 C01")
CHECKS["C02"] = dict(level="model_checking", engine="E1-histories",
   technique="same exhaustive history enumeration as C01; oracle = executable reference model of the README conflict rule (fold of accepted statements in write-time order) compared with a fresh reader and with every writer's own view",
   text="The C01 history space (up to 3/4 statements, 3 writers, all write-time orders incl. decreasing, all writer assignments, refresh points) is executed on the real extension through SQLite (so which columns an UPDATE assigns is decided by SQLite's no-change mechanism); after each history the rows seen by a fresh reader must equal the reference model R-row over all accepted statements, and each writer's own view must equal R-row over the statements it issued or merged. The single-writer histories are part of the space, which gives 'same on one writer or spread over several' directly.",
   note="Trusted: R-row is a literal transcription of the README rule and of the property text (status = latest INSERT/DELETE, DELETE sticky until a later INSERT, per-column greatest write time since that INSERT). Ties in write time excluded.",
   ref="§5 C02")

CHECKS["C05"] = dict(level="model_checking", engine="E1-sequences",
   technique="exhaustive enumeration of all statement sequences (depth 4/5) over a transaction alphabet incl. an injected failing commit, on one SQLite connection holding the s3db table and a native mirror; oracles on own view, fresh reader, request log and tree dumps",
   text="Every sequence of length 1..4 (quick) / 1..5 (thorough) over {BEGIN, COMMIT, ROLLBACK, INSERT (new, duplicate, NULL key), UPDATE (point, range), DELETE, arm-a-failing-version-PUT, INSERT into a second s3db table of the same connection} is run for entries_per_node 2/4096 and write_time unset / explicitly set per statement. After the last step: the connection's rows equal the native mirror's (own writes visible, restored by explicit rollback, failing statement or failing commit); a fresh read-only opener sees exactly the last committed rows (none or all of a transaction); no version object is written before COMMIT or by a rolled-back transaction, exactly one per changing commit and none otherwise; the tree after any rollback equals the pre-transaction tree dump field by field; with write_time unset everything a transaction wrote, in both tables, carries one time (the logical clock advances on every read, so per-statement clock reads would show).",
   note="Trusted: SQLite's own transaction handling of the native mirror; injected commit failure = version PUT fails before taking effect. Failing multi-row statements inside explicit transactions are out of scope (needs xSavepoint; property is silent).",
   ref="§5 C05")

CHECKS["C15"] = dict(level="model_checking", engine="E1-histories",
   technique="exhaustive enumeration: (a) every history of the C01 space x every byte-identical retry placement, differential oracle (with vs without the retry); (b) out-of-time-order histories vs the reference conflict rule; (c) every sequence over the s3db_conn surface vs a model of effective write time / deadline, with stored timestamps read by the tree walker",
   text="(a) For every history of up to 3 (quick) / 4 (thorough) statements by up to 3 writers (all kinds, all write-time orders, two base states) and every (statement i, later position, writer, with or without a refresh of that writer first) a re-execution of statement i with the same text, values and write_time is inserted; the rows a fresh reader sees must equal those of the history without it. (b) Histories whose execution order contradicts the write-time order must end in the state the documented rule gives. (c) Every sequence of length 1..5 (quick) / 1..6 (thorough) over {set write_time t1/t2, clear it with NULL or '', set deadline past/future, clear it, BEGIN, COMMIT, ROLLBACK, INSERT, read s3db_conn} is checked against a model: read-back equals what was set, the stored row time equals the write_time in effect (exactly) or the clock / transaction time when unset, a past deadline fails exactly the autocommit INSERTs and changing COMMITs issued while it is set, clearing restores the defaults.",
   note="Trusted: logical clock hooks (H2/H5/H6) stand in for time.Now(); deadlines only in the far past/future so no real timer fires. After the connection itself manipulated write_time inside a transaction the model accepts either the transaction time or the statement time (the property leaves it open).",
   ref="§5 C15")

CHECKS["C11"] = dict(level="model_checking", engine="E1-sequences",
   technique="exhaustive enumeration of all event sequences (depth 4/5) over two writers, a read-only observer, no-op probes, refresh, merging opens and read-only re-opens; recorded (version name, rows) pairs re-read at the end of every sequence",
   text="Every sequence of length 1..4 (quick) / 1..5 (thorough) over 18 events (INSERT/UPDATE/DELETE on two keys by two writers, a two-statement transaction, statements that change nothing, refresh, a merging open by a fresh client, a read-only re-open that can hold several unmerged names) is executed; after every event the (s3db_version, rows) of every live table is recorded. At the end every recorded version is re-read through s3db_changes(from='[]', to=v) and through a read-only open restricted to exactly those names and must show the recorded rows; one name never denotes two row sets; every listed name exists as an object; no-ops and refreshes without news keep the name; a change of committed rows changes it. Thorough adds entries_per_node=2 (multi-level trees).",
   note="Trusted: fake store; increasing logical write times; no vacuum in these histories (the property exempts vacuumed versions; C09/C10).",
   ref="§5 C11")
CHECKS["C12"] = dict(level="model_checking", engine="E1-sequences",
   technique="same exhaustive sequence enumeration as C11; set-inclusion oracle on s3db_changes for every (earlier version, final version) pair in both directions, plus enumeration of every single storage fault (3 kinds) at every request of one diff per sequence",
   text="For every sequence of the C11 space and every earlier version A against the final version B, in both directions, the result of s3db_changes(from,to) must be a subset of rows(to), contain every row of 'to' that is absent from or different in 'from', contain no deleted row, and the query must succeed (deletes between the versions included). For one pair per sequence every request of the diff is failed once with each of {transport error, AWS-style 500, cancelled context}: the query must return an error or exactly the fault-free answer.",
   note="Trusted: fake store; fault = request has no effect and returns the error. Only single faults; pairs of old versions are covered through the prefix sequences.",
   ref="§5 C12")

CHECKS["C17"] = dict(level="model_checking", engine="E1-sequences",
   technique="exhaustive enumeration of all event sequences over three kv handles (all time-rank assignments, all version-list permutations at every re-open, every RemoveTombstones cutoff) on the real kv package; reference model = one map per handle and per committed version",
   text="Every sequence of length 1..5 (quick; callback modes 1..4) / 1..6 (thorough) over {Set, Tombstone, Commit, re-Open on 3 handles; RemoveTombstones with every cutoff rank; Clone+Set} with canonical handle order and every assignment of distinct time ranks to the timed events (so decreasing times occur), in three modes (last-write-wins, conflict callback, custom max-merge), plus a reduced alphabet with times in execution order to depth 7/9 (long version chains), plus legacy gob root objects, is executed against the real kv.DB on the fake store. After each sequence every handle's Get / IsTombstoned / Size / cursor scan, Diff between every ordered pair of committed versions, and TraceHistory (starts at the current value, only committed values, strictly decreasing times) must agree with the model, tombstoned entries must carry the earliest merged tombstone time; the conflict callback must fire exactly for keys whose live values differ in the two trees merged.",
   note="Trusted: model = the documented rule (latest time wins, tombstone beats values, earliest tombstone kept, RemoveTombstones drops tombstones strictly older than the cutoff). Equal times are excluded (order dependent by design).",
   ref="§5 C17")

CHECKS["C18"] = dict(level="exploration", engine="E4-domain",
   technique="exhaustive enumeration over plaintext lengths x passphrases x every single-bit flip / truncation / extension / wrong passphrase of the ciphertext (current and legacy format), plus end-to-end runs through kv.Open on the fake store",
   text="For every plaintext length 0..130 (quick) / 0..300 (thorough), crossing the 32/64-byte block boundaries of the legacy box, and three passphrases: decrypt(encrypt(p)) = p; equal plaintext gives equal ciphertext; EVERY single-bit flip, EVERY truncation, three 1-byte extensions and both other passphrases are rejected with an error; ciphertext produced in the earlier hand-rolled format (hook H7 exposes the repo's own legacy seal) decrypts to the original and every bit flip of it is rejected. End to end (1, 5, 40 entries; branch factor 4): no 4-byte window of any key or value occurs in any stored node object, a second handle reads everything back, adding one entry re-writes only the path to it and never an existing name (store immutability invariant), a different passphrase reads nothing, with every stored node modified no entry is returned, and with every single request of the encrypted commit failed once (before or after taking effect) no stored object contains plaintext and an acknowledged commit reads back.",
   note="Decides the observable statements of the property (no plaintext bytes, authenticated, deterministic, legacy readable), not cryptographic strength. Lengths above the bound and multi-bit corruptions are not enumerated.",
   ref="§5 C18")

CHECKS["C04"] = dict(level="fault_enumeration", engine="E3-crash-cuts",
   technique="exhaustive enumeration of every down-closed subset (crash cut) of the recorded mutation log of a transaction / merging open / refresh / vacuum, each crash state recovered by the real code under every permutation of the heads",
   text="15 scenarios (empty table, one version, two and three unmerged heads, single- and multi-level trees, histories with deleted rows; transaction = autocommit INSERT, multi-statement BEGIN..COMMIT, a transaction with an older write_time than the row's entry, merging read-write open, s3db_refresh that merges, writer based on neither head, s3db_vacuum with three cutoffs). The transaction runs once against a recording handle; every down-closed subset of its mutation log under the partial order the code imposes (concurrent node PUTs, vacuum's DELETE sets and the retire chains of different parents unordered, everything else in program order; up to 1027 cuts per scenario) is applied to the pre-state and recovered: read-only opens under every permutation of the heads must succeed, agree, and show exactly the rows before or exactly the rows after (after, if the transaction was acknowledged); a read-write recovery must agree, accept a write, and be readable afterwards; thorough cuts the recovery's own commits again (second crash).",
   note="Trusted: S3 semantics (atomic objects, an in-flight request landed or not); groups larger than 12 unordered requests are covered by prefixes, single omissions and singletons (monotonicity argument in engine/crash.go) and reported as exhaustive:false.",
   ref="§5 C04")

CHECKS["C14"] = dict(level="fault_enumeration", engine="E3-faults",
   technique="exhaustive single-fault enumeration: every object-store request position of the connection under test x 3 error kinds x 3 modes, replayed on the real extension and compared with a model of the acknowledged writes",
   text="Five scenarios (multi-level tree with two unmerged heads: open/INSERT/UPDATE/DELETE/range and descending SELECT; single node: multi-statement transaction; multi-level with node cache; refresh with two heads + s3db_version + s3db_changes; vacuum then SELECT/INSERT). The fault-free run counts the requests of the connection (about 470 positions in total); each position is failed with {transport error, AWS-style 500, cancelled context} in the modes {fails before taking effect, takes effect then fails, persistent until the statement ends}: ~4200 runs. Every statement must return an error or the complete correct result (reads are compared row by row with the model, so a truncated scan is a violation); the worker must not die (a Go panic in an SQLite callback kills it) nor exceed the request budget; after the fault clears a new connection and the refreshed connection must show the acknowledged writes plus a subset of the errored write statements, each wholly in or out, and accept a write.",
   note="Single fault (or one persistent burst) per run; 'no such object' answers are not injected (C09). Hang detection = request budget / coarse watchdog, never a short wall-clock oracle.",
   ref="§5 C14")

CHECKS["C09"] = dict(level="model_checking", engine="E1-sequences",
   technique="exhaustive enumeration of all event sequences (depth 3/4) x every vacuum cutoff relative to every event time (-1 s / exact / +1 s) on a logical clock; before/after differential oracles, recorded versions re-opened, independent walker over every version object present",
   text="Every sequence of length 1..3 (quick) / 1..4 (thorough) over 14 events (INSERT/UPDATE/DELETE on two keys by w1, a DELETE with an older write_time, reconnect, refresh, a stale second writer and its refresh, a merging open, earlier vacuums) for entries_per_node 2 and 4096 and node cache 0/100 is followed by s3db_vacuum on w1 with every cutoff of the form event time -1 s / exact / +1 s. Afterwards: the vacuuming connection's rows (full scan, point lookups, descending range) are unchanged and it can still INSERT/UPDATE/DELETE; a fresh reader sees what a fresh reader saw just before the vacuum (a key may differ only if its delete marker is older than the cutoff); every recorded version created at/after the cutoff or still under root/current re-opens by name with its recorded rows; the walker finds no version object, current or retired, that reaches a deleted object; repeating the vacuum keeps the rows. Crash cuts inside vacuum are enumerated by C04.",
   note="Trusted: logical clock (H2/H5/H6) gives every version its creation time; walker decodes with generated protobuf types only. Unmerged heads of other writers count as retained (they are under root/current).",
   ref="§5 C09")
CHECKS["C10"] = dict(level="model_checking", engine="E1-sequences",
   technique="same exhaustive sequence x cutoff enumeration as C09; oracles from the walker (entries of the vacuumed version, version graph before/after, reachability) and a byte-level comparison of the bucket after repeating the vacuum",
   text="For every sequence and cutoff of the C09 space: the vacuumed current version holds no tombstone and no row whose delete time is before the cutoff; rows deleted at or after the cutoff keep their marker, and a late write with an older time committed by a stale writer and merged afterwards stays deleted; every ancestor of the vacuuming connection's version all of whose successors were created strictly before the cutoff is gone from root/merged and no object that only such versions reached is left; running the same vacuum again leaves the bucket byte-identical.",
   note="Where the statement is silent (a successor created exactly at the cutoff, successors on both sides of it, versions outside the vacuuming connection's ancestry) either outcome is accepted.",
   ref="§5 C10")

CHECKS["C03"] = dict(level="model_checking", engine="E2-scheduler",
   technique="stateless depth-first search over all schedules of a hand-written request-level controlled scheduler (one client runs at a time; points = LIST and every request under root/ plus statement boundaries) with sound global-state-key pruning; both retire orders of two parents via hook H4",
   text="Eight scenarios (writer with two autocommit inserts || read-only opener; writer || read-write opener that then inserts; two unmerged heads merged by a read-write open || reader, both retire orders; writer || s3db_refresh of a live table; writer with a two-statement transaction || reader; writer || two successive read-only opens; thorough: two writers || reader and writer || merger || reader with iterative preemption bounding under a time budget, completed bound reported). Every interleaving of the real clients' object-store requests is executed on the real code; state key = bucket bytes + every client's position, everything it has been answered and its logical clock + the oracle's history facts. Per execution: every open sees every statement acknowledged before its first request, never a state that no set of committed versions explains (per-writer prefixes, transactions whole, never an empty table), no client errors, no deadlock; after all clients finish a fresh open contains every acknowledged statement. A recorded schedule is replayed twice and must give identical traces (determinism self-check).",
   note="Trusted: node requests are not scheduling points (content-addressed, invisible until a version object refers to them; no vacuum in these scenarios); S3 strong consistency; SQLite/go-sqlite3 internals are not interleaved.",
   ref="§5 C03")
CHECKS["C19"] = dict(level="model_checking", engine="E2-scheduler",
   technique="exhaustive schedule search (same controlled scheduler as C03) over independent statement streams with a solo-run differential oracle; plus an auxiliary, explicitly sampled free-running pass of the same bodies in a -race build",
   text="2 (quick) / 2 and 3 (thorough) connections, each with its own statement stream (open, set/clear write_time, set a past/future deadline, INSERT/UPDATE/SELECT, BEGIN..COMMIT, refresh, vacuum, s3db_conn read-back, stored entry times read through the connection's own tree), run under every interleaving of visible requests and statement boundaries: on different bucket prefixes every connection's complete observation vector must equal that of its solo run (absolute isolation: this is what exposes a hoisted per-connection attribute block); on a shared prefix attributes, statement outcomes and stored times must still equal the solo run, own writes stay visible and a fresh open at the end shows exactly the accepted statements; no execution may end with a client neither finished nor at a point (deadlock). Auxiliary: the same bodies plus two connections on the lazily created in-memory bucket run free on OS threads in a binary built with -race (30 / 400 runs); any race report is a violation.",
   note="Data-race freedom is sampled by the race detector, not enumerated (stated in evidence as race_pass.auxiliary_sampled); the exhaustive part is complete within the stated streams (thorough 3-connection runs report 'complete': false if the time budget ends first).",
   ref="§5 C19")

NOT_YET = {}

props = [json.loads(l) for l in open("properties.jsonl")]
checks = []
na = []
for p in props:
    pid = p["id"]
    if pid in CHECKS:
        c = CHECKS[pid]
        checks.append({
            "property_id": pid,
            "quick_cmd": f"./check {pid} quick",
            "thorough_cmd": f"./check {pid} thorough",
            "evidence_file": f"evidence/{pid}.json",
            "replay_cmd_template": "./check --replay {path}",
            "engine": c["engine"],
            "level_claimed": {"category": c["level"], "text": c["text"], "design_ref": c["ref"]},
            "level_note": c["note"],
            "technique": c["technique"],
        })
    else:
        na.append({"property_id": pid, "reason": NOT_YET.get(pid, "check not implemented yet in this revision (work in progress; see DESIGN.md §5 for the plan)")})

m = {
 "version": 1,
 "setup_cmd": "./check --setup",
 "hooks": {
   "guard": "verif",
   "enable": "go build -tags verif (the check script builds /verif/cmd/vcheck with a module replace => /repo, so /repo's working tree is compiled on every run)",
   "baseline_off_cmd": "cd /repo && GOFLAGS=-mod=mod GOPROXY=off go test -vet=off -count=1 ./...",
   "source_commits": HOOK_COMMITS,
   "add_only": True,
 },
 "engines": [
   {"name": "E1-sequences / E1-bfs / E1-histories", "path": "engine/{world,pool,run,walker}.go + checks/", "serves_properties": sorted(k for k,v in CHECKS.items() if v["engine"].startswith("E1")), "kind_free_text": "hand-written explicit-state search / exhaustive sequence and history enumeration driving the real SQLite extension (or the kv package) over a fake object store, in worker subprocesses"},
   {"name": "E2-scheduler", "path": "engine/sched.go", "serves_properties": ["C03", "C19"], "kind_free_text": "hand-written request-level controlled scheduler with stateless DFS, global-state-key pruning and iterative preemption bounding"},
   {"name": "E3-crash-cuts / E3-faults", "path": "engine/crash.go, engine/fakes3.go", "serves_properties": ["C04", "C14", "C12"], "kind_free_text": "enumeration of all down-closed subsets of a recorded mutation log (crash states) and of all single-fault positions x kinds x modes"},
   {"name": "E4-domain", "path": "checks/c07.go c08.go c18.go c20.go", "serves_properties": ["C07", "C08", "C18", "C20"], "kind_free_text": "exhaustive enumeration of bounded input domains (boundary alphabets, grammar-generated argument lists, all bit flips)"},
 ],
 "checks": checks,
 "not_applicable": na,
 "notes": "All checks are bounded exhaustive enumerations on the implementation itself (no separate model); see DESIGN.md.",
}
json.dump(m, open("MANIFEST.json", "w"), indent=1)
print("checks:", len(checks), "not_applicable:", len(na))
