// Command vcheck runs the s3db model-checking harness.
//
//	vcheck run <property> <quick|thorough>   run one check (coordinator)
//	vcheck replay <file>                      re-run one recorded witness, no explorer
//	vcheck worker                             worker subprocess (internal)
//	vcheck list
package main

import (
	"encoding/json"
	"fmt"
	"os"
	"sort"
	"strings"

	"verif/checks"
	"verif/engine"
)

func main() {
	if len(os.Args) < 2 {
		fmt.Fprintln(os.Stderr, "usage: vcheck run <prop> <tier> | replay <file> | worker | list")
		os.Exit(2)
	}
	switch os.Args[1] {
	case "worker":
		engine.WorkerMain()
	case "racebody":
		var seed int64
		if len(os.Args) > 2 {
			fmt.Sscan(os.Args[2], &seed)
		}
		os.Exit(checks.RaceBody(seed))
	case "list":
		ids := []string{}
		for id := range checks.All {
			ids = append(ids, id)
		}
		sort.Strings(ids)
		for _, id := range ids {
			fmt.Println(id)
		}
	case "run":
		if len(os.Args) < 4 {
			fmt.Fprintln(os.Stderr, "usage: vcheck run <prop> <quick|thorough>")
			os.Exit(2)
		}
		c := checks.All[os.Args[2]]
		if c == nil {
			fmt.Fprintln(os.Stderr, "unknown property", os.Args[2])
			os.Exit(2)
		}
		r := engine.NewRun(os.Args[2], os.Args[3], c.Level)
		code := c.Run(r)
		fin := r.Finish()
		if fin != 0 {
			code = fin
		}
		os.Exit(code)
	case "replay":
		b, err := os.ReadFile(os.Args[2])
		if err != nil {
			fmt.Fprintln(os.Stderr, err)
			os.Exit(2)
		}
		var rf engine.ReplayFile
		if err := json.Unmarshal(b, &rf); err != nil {
			fmt.Fprintln(os.Stderr, err)
			os.Exit(2)
		}
		if rf.Kind == "" && strings.HasPrefix(rf.Class, "data-race:") {
			// a report of the auxiliary, sampled race pass has no case to re-run: run the pass again and look for
			// the same class (sampled: a race that is there usually shows within a few dozen runs)
			races, ran, note := checks.ReplayRacePass(60)
			fmt.Printf("race pass re-run: %d runs, %d distinct reports %s\n", ran, len(races), note)
			for _, c := range races {
				if c == rf.Class {
					fmt.Printf("VIOLATION property=%s replay=%s\n", rf.Property, os.Args[2])
					os.Exit(1)
				}
			}
			fmt.Println("no violation on replay (the race report did not recur in this sampled re-run)")
			return
		}
		res := engine.RunOne(rf.Kind, rf.Case)
		out, _ := json.MarshalIndent(res, "", " ")
		fmt.Println(string(out))
		if res.Died || len(res.Viol) > 0 {
			fmt.Printf("VIOLATION property=%s replay=%s\n", rf.Property, os.Args[2])
			os.Exit(1)
		}
		fmt.Println("no violation on replay")
	default:
		fmt.Fprintln(os.Stderr, "unknown command", os.Args[1])
		os.Exit(2)
	}
}
