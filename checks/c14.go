package checks

import (
	"encoding/json"
	"fmt"
	"sort"
	"strings"
	"sync"
	"time"

	"verif/engine"
)

// C14 — storage faults surface as errors; never as wrong answers, hangs or crashes.
//
// For each scenario (a list of statements on one connection over a prepared bucket) the fault-free run
// gives the number of object-store requests the connection issues.  Then every request position x error
// kind {transport, AWS 500, cancelled context} x mode {fails before taking effect, takes effect then
// fails, persistent until the statement ends} is replayed.  Oracle: every statement returns an error or
// the complete correct result (reads compared with a model of the acknowledged writes); the process
// neither dies nor exceeds the request budget; after the fault clears the connection (after refresh) and
// a new connection see the acknowledged writes plus a subset of the errored write statements, each wholly
// in or out, and can write again.

type c14Stmt struct {
	// WT, when > 0, is an explicit write_time (seconds after the epoch) set on the connection for this statement
	WT int
	// AfterVacuum marks a write whose effect depends on an earlier vacuum having reclaimed a delete marker: when
	// that vacuum reported an error the write's effect is optional in the model (the marker may still win)
	AfterVacuum bool
	Name        string
	Kind        string // open | read | write | maint
	SQL         string
	Args        []interface{}
	Apply       func(m map[int][2]string) // model effect of a write
	Read        func(m map[int][2]string) engine.Rows
	Do          func(c *engine.Client) (engine.Rows, error) // for non-SQL statements
}

type c14Scenario struct {
	Name  string
	EPN   int
	Cache int
	// DeleteDesc: vacuum deletes its objects in descending instead of ascending name order (hook H9)
	DeleteDesc bool
	Build      func(w *engine.World) map[int][2]string // prepares the bucket, returns the committed rows (model)
	Stmts      []c14Stmt
}

func rowsOf(m map[int][2]string, filter func(k int) bool, desc bool) engine.Rows {
	var ks []int
	for k := range m {
		if filter == nil || filter(k) {
			ks = append(ks, k)
		}
	}
	sort.Ints(ks)
	if desc {
		sort.Sort(sort.Reverse(sort.IntSlice(ks)))
	}
	out := engine.Rows{}
	for _, k := range ks {
		out = append(out, fmt.Sprintf("i%d|t'%s'|t'%s'", k, m[k][0], m[k][1]))
	}
	return out
}

func c14Scenarios() []c14Scenario {
	build := func(epn int, second bool) func(w *engine.World) map[int][2]string {
		return func(w *engine.World) map[int][2]string {
			m := map[int][2]string{}
			a := w.NewClient("a")
			must(a.Create(engine.TableOpts{EPN: epn}))
			var b *engine.Client
			if second {
				b = w.NewClient("b")
				must(b.Create(engine.TableOpts{EPN: epn}))
			}
			must(a.SetWriteTime(engine.T(100)))
			must(a.Exec("begin"))
			for k := 1; k <= 9; k++ {
				must(a.Exec("insert into {T} values(?,?,?)", k, "b", "c"))
				m[k] = [2]string{"b", "c"}
			}
			must(a.Exec("commit"))
			must(a.SetWriteTime(engine.T(110)))
			must(a.Exec("delete from {T} where a=9"))
			delete(m, 9)
			a.Close()
			if second {
				must(b.SetWriteTime(engine.T(120)))
				must(b.Exec("insert into {T} values(20,'b2','c2')"))
				m[20] = [2]string{"b2", "c2"}
				b.Close()
			}
			return m
		}
	}
	// plain base without any delete marker: a later vacuum + replay reproduces exactly the earlier tree
	buildPlain := func(epn int) func(w *engine.World) map[int][2]string {
		return func(w *engine.World) map[int][2]string {
			m := map[int][2]string{}
			a := w.NewClient("a")
			must(a.Create(engine.TableOpts{EPN: epn}))
			must(a.SetWriteTime(engine.T(100)))
			must(a.Exec("begin"))
			for k := 1; k <= 8; k++ {
				must(a.Exec("insert into {T} values(?,?,?)", k, "b", "c"))
				m[k] = [2]string{"b", "c"}
			}
			must(a.Exec("commit"))
			a.Close()
			return m
		}
	}
	open := c14Stmt{Name: "open (CREATE VIRTUAL TABLE)", Kind: "open"}
	selAllS := c14Stmt{Name: "SELECT all", Kind: "read", SQL: selAll, Read: func(m map[int][2]string) engine.Rows { return rowsOf(m, nil, false) }}
	selRange := c14Stmt{Name: "SELECT range", Kind: "read", SQL: "select a,b,c from {T} where a>=2 and a<7 order by a", Read: func(m map[int][2]string) engine.Rows {
		return rowsOf(m, func(k int) bool { return k >= 2 && k < 7 }, false)
	}}
	selDesc := c14Stmt{Name: "SELECT descending", Kind: "read", SQL: "select a,b,c from {T} where a<=8 order by a desc", Read: func(m map[int][2]string) engine.Rows {
		return rowsOf(m, func(k int) bool { return k <= 8 }, true)
	}}
	ins := func(k int) c14Stmt {
		return c14Stmt{Name: fmt.Sprintf("INSERT %d", k), Kind: "write", SQL: fmt.Sprintf("insert into {T} values(%d,'ib','ic')", k), Apply: func(m map[int][2]string) { m[k] = [2]string{"ib", "ic"} }}
	}
	upd := c14Stmt{Name: "UPDATE 3", Kind: "write", SQL: "update {T} set b='ub' where a=3", Apply: func(m map[int][2]string) {
		if v, ok := m[3]; ok {
			m[3] = [2]string{"ub", v[1]}
		}
	}}
	del := c14Stmt{Name: "DELETE 4", Kind: "write", SQL: "delete from {T} where a=4", Apply: func(m map[int][2]string) { delete(m, 4) }}
	tx := c14Stmt{Name: "BEGIN; INSERT 60; INSERT 61; UPDATE 5; COMMIT", Kind: "write", Do: func(c *engine.Client) (engine.Rows, error) {
		if err := c.Exec("begin"); err != nil {
			return nil, err
		}
		for _, q := range []string{"insert into {T} values(60,'tb','tc')", "insert into {T} values(61,'tb','tc')", "update {T} set c='tu' where a=5"} {
			if err := c.Exec(q); err != nil {
				c.Exec("rollback")
				return nil, err
			}
		}
		if err := c.Exec("commit"); err != nil {
			c.Exec("rollback")
			return nil, err
		}
		return nil, nil
	}, Apply: func(m map[int][2]string) {
		m[60], m[61] = [2]string{"tb", "tc"}, [2]string{"tb", "tc"}
		if v, ok := m[5]; ok {
			m[5] = [2]string{v[0], "tu"}
		}
	}}
	refresh := c14Stmt{Name: "s3db_refresh", Kind: "maint", Do: func(c *engine.Client) (engine.Rows, error) { return nil, c.Refresh() }}
	version := c14Stmt{Name: "s3db_version", Kind: "maint", Do: func(c *engine.Client) (engine.Rows, error) {
		v, err := c.Version()
		if err == nil && !strings.HasPrefix(v, "[") {
			return nil, fmt.Errorf("malformed version %q", v)
		}
		return nil, err
	}}
	changes := c14Stmt{Name: "s3db_changes from []", Kind: "read", Do: func(c *engine.Client) (engine.Rows, error) {
		v, err := c.Version()
		if err != nil {
			return nil, err
		}
		c.Exec("drop table if exists {T}_chg")
		if err := c.Exec("create virtual table {T}_chg using s3db_changes(table='{T}', from='[]', to='" + v + "')"); err != nil {
			return nil, err
		}
		defer c.Exec("drop table {T}_chg")
		return c.Query("select a,b,c from {T}_chg order by a")
	}, Read: func(m map[int][2]string) engine.Rows { return rowsOf(m, nil, false) }}
	vacuum := c14Stmt{Name: "s3db_vacuum", Kind: "maint", Do: func(c *engine.Client) (engine.Rows, error) {
		verr, err := c.Vacuum(engine.T(115))
		if err == nil && verr != "" {
			err = fmt.Errorf("vacuum_error: %s", verr)
		}
		return nil, err
	}}
	insAt := func(k, wt int, afterVacuum bool) c14Stmt {
		x := ins(k)
		x.WT, x.AfterVacuum = wt, afterVacuum
		x.Name = fmt.Sprintf("INSERT %d at write_time %d", k, wt)
		return x
	}
	delAt := func(k, wt int) c14Stmt {
		return c14Stmt{WT: wt, Name: fmt.Sprintf("DELETE %d at write_time %d", k, wt), Kind: "write", SQL: fmt.Sprintf("delete from {T} where a=%d", k), Apply: func(m map[int][2]string) { delete(m, k) }}
	}
	vacuumAll := c14Stmt{Name: "s3db_vacuum (cutoff after everything)", Kind: "maint", Do: func(c *engine.Client) (engine.Rows, error) {
		verr, err := c.Vacuum(engine.T(8000))
		if err == nil && verr != "" {
			err = fmt.Errorf("vacuum_error: %s", verr)
		}
		return nil, err
	}}
	all := []c14Scenario{
		{Name: "multi-level, two heads: open, INSERT, UPDATE, DELETE, SELECT range, SELECT desc", EPN: 2, Build: build(2, true), Stmts: []c14Stmt{open, ins(50), upd, del, selRange, selDesc, selAllS}},
		{Name: "single node: open, transaction, SELECT", EPN: 4096, Build: build(4096, false), Stmts: []c14Stmt{open, tx, selAllS, ins(70), selAllS}},
		{Name: "multi-level with node cache: open, INSERT, SELECT, UPDATE", EPN: 2, Cache: 100, Build: build(2, false), Stmts: []c14Stmt{open, ins(50), selAllS, upd, selRange}},
		{Name: "refresh with two heads, version, changes", EPN: 4096, Build: build(4096, true), Stmts: []c14Stmt{open, ins(50), refresh, version, changes, selAllS}},
		{Name: "vacuum, then SELECT and INSERT", EPN: 2, Build: build(2, true), Stmts: []c14Stmt{open, vacuum, selAllS, ins(50), selDesc}},
		// returns the table to an earlier content after a vacuum removed that content's objects: the replayed
		// INSERT produces exactly the nodes the vacuum deleted
		{Name: "node cache: INSERT, DELETE, vacuum everything, replay of the INSERT at its original write_time", EPN: 2, Cache: 100, Build: buildPlain(2), Stmts: []c14Stmt{open, insAt(50, 200, false), delAt(50, 210), vacuumAll, insAt(50, 200, true)}},
		{Name: "node cache, single node: INSERT, DELETE, vacuum everything, replay of the INSERT", EPN: 4096, Cache: 100, Build: buildPlain(4096), Stmts: []c14Stmt{open, insAt(50, 200, false), delAt(50, 210), vacuumAll, insAt(50, 200, true)}},
	}
	// a table emptied by DELETE and then vacuumed with a cutoff after everything: vacuum's "empty current version
	// may be deleted too" branch reads and deletes the version the handle is at
	// (WHERE a<=8 = every base row: the model applies an errored write after the acknowledged ones, so the
	// statement must commute with the later INSERT 50)
	delAll := c14Stmt{Name: "DELETE all rows", Kind: "write", SQL: "delete from {T} where a<=8", Apply: func(m map[int][2]string) {
		for k := range m {
			if k <= 8 {
				delete(m, k)
			}
		}
	}}
	all = append(all, c14Scenario{Name: "emptied table: open, DELETE all, vacuum everything, SELECT, INSERT, SELECT", EPN: 4096, Build: buildPlain(4096), Stmts: []c14Stmt{open, delAll, vacuumAll, selAllS, ins(50), selAllS}})
	// vacuum deletes objects in map order: every scenario with a vacuum also in the opposite (descending) order
	n := len(all)
	for i := 0; i < n; i++ {
		for _, st := range all[i].Stmts {
			if strings.Contains(st.Name, "vacuum") {
				d := all[i]
				d.Name += " (vacuum deletes in descending order)"
				d.DeleteDesc = true
				all = append(all, d)
				break
			}
		}
	}
	return all
}

type c14Case struct {
	Scen int `json:"scen"`
	K    int `json:"k"` // -1 = fault-free run (reports the request identities), else ordinal for display only
	// Ident identifies the request to fail as "OP key #occurrence": concurrent node PUTs of one flush arrive in
	// a scheduling-dependent order, so an ordinal position would not be reproducible
	Ident string `json:"ident,omitempty"`
	// Ident2 is a second, independent fault (thorough tier: all pairs, transport error before taking effect).
	Ident2 string `json:"ident2,omitempty"`
	Kind   string `json:"kind"` // transport aws500 ctx hang (hang: no answer until the connection's deadline expires)
	Mode   string `json:"mode"` // before applied persistent
}

func init() {
	All["C14"] = &Check{Level: "fault_enumeration", Run: c14Run}
	engine.RegisterWorker("c14", c14Worker)
}

func c14Run(r *engine.Run) int {
	scen := c14Scenarios()
	r.Rule = "for each scenario every request position of the connection under test x {transport error, AWS-style 500, cancelled context} x {fails before taking effect, takes effect then fails, persistent until the statement ends} is replayed, and every request position once more with NO answer at all while the connection's deadline is 2-3 s ahead (the request must end with the deadline: a request issued with a context that can never end is reported); a case is non-trivial when the fault fired (all are, by construction) and distinct by (scenario, position, kind, mode)"
	var names []string
	for _, s := range scen {
		names = append(names, s.Name)
	}
	r.Bounds["scenarios"] = names
	r.Bounds["faults_per_run"] = map[bool]string{false: "1", true: "1, and all pairs (transport, before effect)"}[r.Thorough()]
	r.Assumptions = []string{"a well-formed 'no such object' answer is not injected here (C09 owns it)", "single fault (or one persistent burst) per run", "the unanswered-request cases use the real clock for the connection deadline (2-3 s ahead); a fault-free statement is assumed to take less than 2 s; a statement that misses it merely errors, which the oracle allows", "hang = request budget of 50x the fault-free request count exceeded, or the coarse worker watchdog"}
	var cases []json.RawMessage
	for si := range scen {
		// the fault-free run tells how many requests there are
		res := engine.RunOne("c14", engine.J(c14Case{Scen: si, K: -1}))
		if res.Died || len(res.Viol) > 0 {
			r.Add("c14", engine.J(c14Case{Scen: si, K: -1}), res)
			continue
		}
		var d struct {
			Idents []string `json:"idents"`
		}
		json.Unmarshal(res.Data, &d)
		r.Add("c14", engine.J(c14Case{Scen: si, K: -1}), res)
		if r.Thorough() {
			for a := 0; a < len(d.Idents); a++ {
				for b := a + 1; b < len(d.Idents); b++ {
					cases = append(cases, engine.J(c14Case{Scen: si, K: a, Ident: d.Idents[a], Ident2: d.Idents[b], Kind: "transport", Mode: "before"}))
				}
			}
		}
		for k, id := range d.Idents {
			if r.Thorough() || !scen[si].DeleteDesc {
				// (quick tier: the descending-deletion twins differ only inside vacuum; their unanswered-request
				// cases are left to the thorough tier)
				cases = append(cases, engine.J(c14Case{Scen: si, K: k, Ident: id, Kind: "hang", Mode: "before"}))
			}
			for _, kind := range []string{"transport", "aws500", "ctx"} {
				for _, mode := range []string{"before", "applied", "persistent"} {
					cases = append(cases, engine.J(c14Case{Scen: si, K: k, Ident: id, Kind: kind, Mode: mode}))
				}
			}
		}
	}
	n := 0
	engine.Map("c14", cases, func(i int, c json.RawMessage, res *engine.Result) {
		r.Add("c14", c, res)
		n++
		if n%151 == 1 && res.Data != nil {
			r.Sample(json.RawMessage(res.Data))
		}
	})
	return r.Vacuity(3, 100)
}

func c14Worker(raw json.RawMessage) *engine.Result {
	var c c14Case
	must(json.Unmarshal(raw, &c))
	res := &engine.Result{Execs: 1}
	sc := c14Scenarios()[c.Scen]
	w := engine.NewWorld()
	defer w.Close()
	w.DeleteDescending = sc.DeleteDesc
	w.SetClock(engine.T(50))
	committed := sc.Build(w)
	w.SetClock(engine.T(1000))
	opts := engine.TableOpts{EPN: sc.EPN, Cache: sc.Cache}
	cl := w.NewClient("c")
	// fault plan on the connection under test
	count := -1
	active := false // persistent burst running
	fired := ""
	var firedStmt string
	curStmt := ""
	mkErr := func() error {
		switch c.Kind {
		case "aws500":
			return engine.ErrAWS500()
		case "ctx":
			return engine.ErrCtx()
		}
		return engine.ErrTransport
	}
	occ := map[string]int{}
	fired2 := false
	firedSecond := ""
	firedIn := map[string]bool{} // statements during which an injected fault fired
	var idents []string
	var identMu sync.Mutex
	cl.H.Fault = func(rq *engine.Req) (engine.FaultMode, error) {
		identMu.Lock()
		defer identMu.Unlock()
		count++
		id := fmt.Sprintf("%s %s #%d", rq.Op, rq.Key, occ[rq.Op+" "+rq.Key])
		occ[rq.Op+" "+rq.Key]++
		if c.K < 0 {
			idents = append(idents, id)
			return engine.FaultNone, nil
		}
		if active {
			return engine.FailBefore, mkErr()
		}
		if c.Ident2 != "" && id == c.Ident2 && !fired2 {
			fired2 = true
			firedSecond = rq.String() + " during " + curStmt
			firedIn[curStmt] = true
			return engine.FailBefore, mkErr()
		}
		if id == c.Ident && fired == "" {
			fired = rq.String()
			firedStmt = curStmt
			firedIn[curStmt] = true
			if c.Kind == "hang" {
				return engine.FaultHang, nil
			}
			switch c.Mode {
			case "applied":
				if rq.Mutating() {
					return engine.ApplyThenFail, mkErr()
				}
				return engine.FailBefore, mkErr()
			case "persistent":
				active = true
			}
			return engine.FailBefore, mkErr()
		}
		return engine.FaultNone, nil
	}
	where := func() string {
		s := fmt.Sprintf("%s; fault: request #%d %s (%s, %s) during %q", sc.Name, c.K, fired, c.Kind, c.Mode, firedStmt)
		if firedSecond != "" {
			s += "; second fault: " + firedSecond
		}
		return s
	}
	feat := ""
	if sc.Cache > 0 {
		feat = "|cache>0"
	} else if sc.EPN < 4096 {
		feat = "|multi-level"
	}
	viol := func(class, f string, a ...interface{}) { res.Violate(class+feat, f+" ["+where()+"]", a...) }
	// model of the connection's own view: committed rows + acknowledged writes
	view := map[int][2]string{}
	for k, v := range committed {
		view[k] = v
	}
	var errored []c14Stmt
	refreshed := false
	opened := false
	vacuumErrored := false
	usesWT, hasVacuum := false, false
	for _, st := range sc.Stmts {
		usesWT = usesWT || st.WT > 0
		hasVacuum = hasVacuum || strings.Contains(st.Name, "vacuum")
	}
	clockT := 1000
	for _, st := range sc.Stmts {
		curStmt = st.Name
		clockT += 100
		w.SetClock(engine.T(clockT))
		var rows engine.Rows
		var err error
		if c.Kind == "hang" {
			// the connection's deadline is 2 to 3 s ahead of every statement (second resolution); only the
			// statement whose request gets no answer ever reaches it. Setting it issues no request.
			must(cl.Exec("update s3db_conn set deadline=?", time.Now().UTC().Add(3*time.Second).Format("2006-01-02 15:04:05")))
		}
		if opened && usesWT {
			// explicit row times for this scenario; setting write_time issues no request
			if st.WT > 0 {
				cl.SetWriteTime(engine.T(st.WT))
			} else {
				cl.Exec("update s3db_conn set write_time=NULL")
			}
		}
		switch {
		case st.Kind == "open":
			for try := 0; try < 3 && !opened; try++ {
				err = cl.Create(opts)
				if err == nil {
					opened = true
				} else {
					active = false // the statement is over: a persistent burst ends with it
					if c.Kind == "hang" {
						must(cl.Exec("update s3db_conn set deadline=NULL"))
					}
					cl.Exec("drop table if exists {T}")
				}
			}
			if !opened {
				viol("open-keeps-failing", "CREATE VIRTUAL TABLE still fails after the fault cleared: %v", err)
				return res
			}
			err = nil
		case st.Do != nil:
			rows, err = st.Do(cl)
		case st.Kind == "read":
			rows, err = cl.Query(st.SQL, st.Args...)
		default:
			err = cl.Exec(st.SQL, st.Args...)
		}
		active = false
		res.Trans++
		if c.Kind == "hang" {
			must(cl.Exec("update s3db_conn set deadline=NULL"))
			if hf := cl.H.HungForever(); len(hf) > 0 {
				viol("request-ignores-deadline", "the connection's deadline was set, but during %s the request %s was issued with a context that can never end: without an answer from the store the statement blocks forever", st.Name, hf[0])
				return res
			}
		}
		if err != nil {
			res.Outcomes = append(res.Outcomes, "error:"+st.Kind)
			if c.K < 0 {
				viol("fault-free-statement-failed", "%s failed without any fault: %v", st.Name, err)
				return res
			}
			if st.Kind == "write" {
				errored = append(errored, st)
			}
			if strings.Contains(st.Name, "vacuum") {
				vacuumErrored = true
			}
			continue
		}
		if strings.Contains(st.Name, "vacuum") && firedIn[st.Name] {
			// A request failed inside this vacuum but the vacuum reported success: the commit inside vacuum treats
			// retiring the superseded version as best effort, so that version (with its delete markers) may still
			// be current and merge back. Whether an older write then wins is the conflict rule's business
			// (C10's post-condition is not quantified over faults), not a lost write.
			vacuumErrored = true
		}
		if st.AfterVacuum && vacuumErrored {
			// acknowledged, but whether it is visible depends on how far the failed vacuum got
			res.Outcomes = append(res.Outcomes, "ok:write-after-failed-vacuum")
			errored = append(errored, st)
			continue
		}
		res.Outcomes = append(res.Outcomes, "ok:"+st.Kind)
		if st.Kind == "write" {
			st.Apply(view)
		}
		if st.Name == "s3db_refresh" {
			refreshed = true
		}
		if st.Read != nil {
			want := st.Read(view)
			ok := rows.Equal(want)
			if !ok && refreshed {
				// after a refresh the connection may legitimately have picked up errored writes that did land
				n := len(errored)
				for mask := 1; mask < 1<<uint(n) && !ok; mask++ {
					m := map[int][2]string{}
					for k, v := range view {
						m[k] = v
					}
					for i, e := range errored {
						if mask&(1<<uint(i)) != 0 {
							e.Apply(m)
						}
					}
					ok = rows.Equal(st.Read(m))
				}
			}
			if !ok {
				cls := "wrong-answer:" + strings.Fields(st.Name)[0]
				if len(rows) < len(want) {
					cls = "truncated-answer:" + strings.Fields(st.Name)[0]
				}
				viol(cls, "%s returned %v without an error; the correct answer is %v", st.Name, rows, want)
			}
		}
	}
	reqs := count + 1
	if c.K >= 0 && fired == "" {
		res.Outcome = "fault-position-not-reached"
		return res
	}
	res.Nontrivial = c.K >= 0
	// ---- after the fault cleared ----
	cl.H.Fault = nil
	candidates := func() []engine.Rows {
		var out []engine.Rows
		n := len(errored)
		for mask := 0; mask < 1<<uint(n); mask++ {
			m := map[int][2]string{}
			for k, v := range view {
				m[k] = v
			}
			for i, st := range errored {
				if mask&(1<<uint(i)) != 0 {
					st.Apply(m)
				}
			}
			out = append(out, rowsOf(m, nil, false))
		}
		return out
	}()
	matches := func(r engine.Rows) bool {
		for _, c := range candidates {
			if r.Equal(c) {
				return true
			}
		}
		return false
	}
	fresh := w.NewClient("fresh")
	if err := fresh.Create(opts); err != nil {
		viol("new-connection-fails-after-fault", "a new connection cannot open the table after the fault cleared: %v", err)
		return res
	}
	frows, err := fresh.Query(selAll)
	if err != nil {
		viol("new-connection-fails-after-fault", "a new connection cannot read the table after the fault cleared: %v", err)
		return res
	}
	if !matches(frows) {
		lost := "state-not-explained"
		if len(frows) < len(candidates[0]) {
			lost = "acknowledged-write-lost"
		} else if hasVacuum {
			// one of the failing requests was one of the two (deliberately unreported) requests that retire the
			// version superseded by an acknowledged DELETE (copy under root/merged/, removal from root/current/), a
			// vacuum followed, and the visible rows are an explained state PLUS rows which that DELETE removed
			isRetire := func(rq, stmt string) bool {
				return (strings.Contains(rq, "/root/merged/") || (strings.Contains(rq, "DELETE ") && strings.Contains(rq, "/root/current/"))) && strings.HasPrefix(stmt, "DELETE")
			}
			second, secondStmt := firedSecond, ""
			if k := strings.Index(firedSecond, " during "); k >= 0 {
				second, secondStmt = firedSecond[:k], firedSecond[k+len(" during "):]
			}
			if isRetire(fired, firedStmt) || isRetire(second, secondStmt) {
				inView := map[string]bool{}
				for _, r := range rowsOf(view, nil, false) {
					inView[r] = true
				}
				deletedAck := map[string]bool{}
				for _, r := range rowsOf(committed, nil, false) {
					if !inView[r] {
						deletedAck[r] = true
					}
				}
				for _, cand := range candidates {
					inCand := map[string]bool{}
					for _, r := range cand {
						inCand[r] = true
					}
					extra, ok := 0, true
					for _, r := range frows {
						if inCand[r] {
							delete(inCand, r)
						} else if deletedAck[r] {
							extra++
						} else {
							ok = false
						}
					}
					if ok && len(inCand) == 0 && extra > 0 {
						lost = "deleted-rows-return-after-vacuum:retiring-the-superseded-version-failed"
						break
					}
				}
			}
		}
		viol(lost, "after the fault cleared a new connection sees %v; acknowledged writes give %v (errored statements: %d)", frows, candidates[0], len(errored))
	}
	if err := cl.Refresh(); err != nil {
		viol("refresh-fails-after-fault", "s3db_refresh on the connection fails after the fault cleared: %v", err)
		return res
	}
	crow, err := cl.Query(selAll)
	if err != nil || !crow.Equal(frows) {
		viol("connection-differs-after-refresh", "after refresh the connection sees %v (err %v), a new connection %v", crow, err, frows)
	}
	w.SetClock(engine.T(9000))
	if err := cl.Exec("insert into {T} values(900,'after','fault')"); err != nil {
		viol("cannot-write-after-fault", "INSERT on the connection after the fault cleared fails: %v", err)
	}
	if len(w.B.Broken) > 0 {
		viol("store-invariant", "%v", w.B.Broken)
	}
	if !hasVacuum {
		// no vacuum ran: every version that a version object still present names as its parent must itself
		// still exist (under root/current or root/merged), whichever request failed
		objs := w.B.Snapshot()
		lay := engine.TableLayout("p")
		cur, mer := engine.Versions(objs, lay)
		all := append(append([]string{}, cur...), mer...)
		have := map[string]bool{}
		for _, n := range all {
			have[n] = true
		}
		for _, n := range all {
			vd, err := engine.WalkVersion(objs, lay, n)
			if err != nil {
				continue
			}
			for _, par := range vd.Root.MergeSources {
				if !have[par] {
					viol("parent-version-object-lost", "version %s names %s as its parent, but that version object is neither under root/current nor under root/merged although no vacuum ran", n, par)
				}
			}
		}
	}
	sort.Strings(idents)
	res.Data = engine.J(map[string]interface{}{"scenario": sc.Name, "requests": reqs, "idents": idents, "fault": fmt.Sprintf("#%d %s %s/%s during %s", c.K, fired, c.Kind, c.Mode, firedStmt), "errored_writes": len(errored), "final_rows": len(frows)})
	return res
}
