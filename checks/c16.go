package checks

import (
	"encoding/json"
	"fmt"
	"strings"

	"verif/engine"
)

// C16 — every committed version is complete and well-formed on its own.
//
// Same closure as C06 (all reachable table states over a finite key/value domain, every
// rows-per-object setting and cache size). For every (state, mutation) pair the mutation is run as
// BEGIN; m; COMMIT and, right after the acknowledged commit:
//   * the dirty in-memory tree dumped just before COMMIT (keys, values, every timestamp, tombstone
//     and previous-version field) equals the tree decoded from the bucket by the independent Walker
//     and the tree a fresh connection loads;
//   * Walker: every object referenced by every version object present exists, node arity is
//     consistent, absent links are absent, keys strictly increase in scan order, size/height match;
//   * the store never saw a name re-written with different bytes;
//   * a commit that changed nothing issued no PUT and no DELETE.

func init() {
	All["C16"] = &Check{Level: "model_checking", Run: func(r *engine.Run) int {
		code := c06Run(r, "c16")
		r.Rule = "explicit-state search to closure (same space as C06); for every (state, mutation) pair: BEGIN; m; COMMIT, then pre-commit in-memory dump == Walker decode of the bucket == fresh connection's tree, plus structural checks of every version object present; non-trivial when the table is non-empty"
		return code
	}}
	engine.RegisterWorker("c16", c16Worker)
}

func keyIndex(cfg c06Cfg, rendered string) int {
	for i, k := range cfg.Keys {
		if renderLiteral(k) == rendered {
			return i
		}
	}
	return -1
}

// renderLiteral renders an SQL literal of the key alphabets the way engine.Render renders the driver value.
func renderLiteral(lit string) string {
	switch {
	case strings.HasPrefix(lit, "x'"):
		return "bx" + strings.ToLower(lit[2:len(lit)-1])
	case strings.HasPrefix(lit, "'"):
		return "t" + lit
	case strings.ContainsAny(lit, ".e"):
		var f float64
		fmt.Sscan(lit, &f)
		return engine.Render(f)
	default:
		var i int64
		fmt.Sscan(lit, &i)
		return engine.Render(i)
	}
}

func c16Worker(raw json.RawMessage) *engine.Result {
	var cs c06Case
	must(json.Unmarshal(raw, &cs))
	res := &engine.Result{}
	muts := c06Muts(cs.Cfg)
	pathNames := func(p []int) []string {
		var s []string
		for _, i := range p {
			s = append(s, muts[i].Name)
		}
		return s
	}
	feat := ""
	if cs.Cfg.Cache > 0 {
		feat = "|cache>0"
	}
	viol := func(class, f string, a ...interface{}) { res.Violate(class+feat, f, a...) }
	layout := engine.TableLayout("p")
	for mi, m := range muts {
		where := fmt.Sprintf("epn=%d cache=%d path=%v then BEGIN; %s; COMMIT", cs.Cfg.EPN, cs.Cfg.Cache, pathNames(cs.Path), m.Name)
		x, err := c06Open(cs.Cfg)
		if err != nil {
			viol("open-failed", "create failed: %v", err)
			return res
		}
		scratch := &engine.Result{}
		for _, i := range cs.Path {
			x.apply(scratch, muts[i], where)
		}
		if mi == 0 {
			k, err := x.key()
			if err != nil {
				viol("live-dump-failed", "cannot scan own table: %v [%s]", err, where)
				x.w.Close()
				return res
			}
			res.Key = k
			n, _ := x.c.Query("select count(*) from nat")
			res.Nontrivial = n[0] != "i0"
			res.Outcome = n[0]
		}
		before, _ := engine.LiveDump(x.c.Tab)
		x.t += 10
		x.w.SetClock(engine.T(x.t))
		must(x.c.Exec("begin"))
		serr := x.c.Exec(fmt.Sprintf(m.SQL, "{T}"))
		res.Trans++
		if serr != nil {
			x.c.Exec("rollback")
			x.w.Close()
			continue
		}
		pre, perr := engine.LiveDump(x.c.Tab)
		logStart := x.w.B.LogLen()
		cerr := x.c.Exec("commit")
		if cerr != nil || perr != nil {
			viol("commit-failed", "commit failed: %v / %v [%s]", cerr, perr, where)
			x.w.Close()
			continue
		}
		changed := pre.Canon(true) != before.Canon(true)
		log := x.w.B.LogSince(logStart)
		if !changed {
			for _, rq := range log {
				if rq.Mutating() {
					viol("nochange-commit-writes", "commit of a transaction that changed nothing issued %s [%s]", rq.String(), where)
					break
				}
			}
		}
		objs := x.w.B.Snapshot()
		ver, verr := x.c.Version()
		var names []string
		if verr != nil || json.Unmarshal([]byte(ver), &names) != nil {
			viol("version-unreadable", "s3db_version failed: %v %q [%s]", verr, ver, where)
		}
		if len(names) > 1 {
			viol("version-multi", "single writer has %d current versions %v [%s]", len(names), names, where)
		}
		if len(names) == 0 {
			if len(pre.Entries) > 0 {
				viol("version-missing", "non-empty table has no version name [%s]", where)
			}
		} else {
			if _, ok := objs[layout.Current()+names[0]]; !ok {
				viol("version-object-missing", "version %s is not under root/current/ [%s]", names[0], where)
			} else if vd, err := engine.WalkVersion(objs, layout, names[0]); err != nil {
				viol("version-undecodable", "%v [%s]", err, where)
			} else {
				if len(vd.Missing) > 0 {
					viol("dangling-link", "version %s refers to missing objects %v [%s]", names[0], vd.Missing, where)
				}
				if len(vd.Tree.Problems) > 0 {
					viol("malformed-node", "%v [%s]", vd.Tree.Problems, where)
				}
				if got, want := vd.Tree.Canon(true), pre.Canon(true); got != want {
					viol("stored-differs-from-memory", "tree decoded from the bucket differs from the writer's in-memory tree before COMMIT:\nstored:\n%s\nmemory:\n%s\n[%s]", got, want, where)
				}
				if int(vd.Root.Size) != len(vd.Tree.Entries) {
					viol("root-size", "root says size %d, tree has %d entries [%s]", vd.Root.Size, len(vd.Tree.Entries), where)
				}
				// The recorded height is the layer of the root node. Lower layers may be empty (mast's grow moves
				// every key of a higher layer into the new root; if all keys qualify the new root has no children),
				// so fewer node levels than height+1 is a well-formed sparse tree; more is not.
				if len(vd.Tree.Entries) > 0 && vd.Tree.Height-1 > int(vd.Root.Height) {
					viol("root-height", "root says height %d, tree has %d levels [%s]", vd.Root.Height, vd.Tree.Height, where)
				}
				if vd.Root.BranchFactor != uint(cs.Cfg.EPN) {
					viol("root-branch", "root branch factor %d, configured %d [%s]", vd.Root.BranchFactor, cs.Cfg.EPN, where)
				}
				last := -1
				for _, e := range vd.Tree.Entries {
					i := keyIndex(cs.Cfg, e.Key)
					if i <= last {
						viol("scan-order", "keys not strictly increasing in scan order: %s at position after index %d [%s]", e.Key, last, where)
						break
					}
					last = i
				}
			}
		}
		// every version object present must be closed under reference
		cur, mer := engine.Versions(objs, layout)
		for _, n := range append(cur, mer...) {
			vd, err := engine.WalkVersion(objs, layout, n)
			if err != nil {
				viol("version-undecodable", "%v [%s]", err, where)
				continue
			}
			if len(vd.Missing) > 0 {
				viol("dangling-link-old", "retained version %s refers to missing objects %v [%s]", n, vd.Missing, where)
			}
		}
		// fresh connection: loads the same tree from the bucket alone, full scan and point lookups
		f := x.w.NewClient("fresh")
		if err := f.Create(engine.TableOpts{Columns: x.cols, EPN: cs.Cfg.EPN, Cache: cs.Cfg.Cache}); err != nil {
			viol("reopen-failed", "fresh connection cannot open: %v [%s]", err, where)
		} else {
			fd, err := engine.LiveDump(f.Tab)
			if err != nil {
				viol("fresh-scan-failed", "fresh connection cannot scan: %v [%s]", err, where)
			} else if fd.Canon(true) != pre.Canon(true) {
				viol("fresh-differs-from-writer", "fresh connection's tree differs from the writer's:\nfresh:\n%s\nwriter:\n%s\n[%s]", fd.Canon(true), pre.Canon(true), where)
			}
			want := pre.VisibleRows([]string{"b", "c"})
			got, err := f.Query("select a,b,c from {T}")
			if err != nil || !got.Equal(want) {
				viol("fresh-rows", "fresh full scan = %v (err %v), writer had %v [%s]", got, err, want, where)
			}
			for _, k := range cs.Cfg.Keys {
				g, err := f.Query("select a,b,c from {T} where a=" + k)
				var w engine.Rows
				for _, r := range want {
					if strings.HasPrefix(r, renderLiteral(k)+"|") {
						w = append(w, r)
					}
				}
				if err != nil || !g.Equal(append(engine.Rows{}, w...)) {
					viol("fresh-point-lookup", "fresh lookup a=%s gives %v (err %v), want %v [%s]", k, g, err, w, where)
				}
			}
			if n := len(x.w.B.LogSince(logStart + len(log))); n > 0 {
				for _, rq := range x.w.B.LogSince(logStart + len(log)) {
					if rq.Mutating() {
						viol("fresh-open-writes", "re-opening a quiescent single-writer table issued %s [%s]", rq.String(), where)
						break
					}
				}
			}
		}
		f.Close()
		if len(x.w.B.Broken) > 0 {
			viol("store-invariant", "%v [%s]", x.w.B.Broken, where)
		}
		nk, kerr := x.key()
		x.w.Close()
		if kerr == nil {
			np := append(append([]int{}, cs.Path...), mi)
			res.Next = append(res.Next, engine.J(engine.BFSNext{Key: nk, Case: engine.J(c06Case{Cfg: cs.Cfg, Path: np})}))
		}
		if res.Data == nil && changed {
			res.Data = engine.J(map[string]interface{}{"epn": cs.Cfg.EPN, "cache": cs.Cfg.Cache, "path": pathNames(cs.Path), "then": m.Name, "stored_tree": strings.Split(pre.Canon(true), "\n"), "requests": fmt.Sprint(log)})
		}
	}
	return res
}
