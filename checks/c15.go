package checks

import (
	"encoding/json"
	"fmt"
	"strings"
	"time"

	"verif/engine"
)

// C15 — write_time makes retries idempotent and cannot reorder history; s3db_conn semantics.
//
// (a) retry: for every multi-writer history of the C01 space and every (statement i, later position p,
//     writer w, with/without a refresh of w first): a byte-identical re-execution of statement i inserted
//     at p on w leaves the merged rows exactly as without it.
// (b) older: histories whose execution order contradicts the write-time order must still end in the
//     documented rule's state (same oracle as C02, restricted to those histories, on writer and reader).
// (c) conn: all sequences over the s3db_conn surface against a small model of the effective write time
//     and deadline of each statement.

type c15Case struct {
	Kind  string `json:"kind"` // retry | conn
	H     hist   `json:"h,omitempty"`
	First []int  `json:"first,omitempty"`
	Depth int    `json:"depth,omitempty"`
}

func init() {
	All["C15"] = &Check{Level: "model_checking", Run: c15Run}
	engine.RegisterWorker("c15", c15Worker)
}

var c15Ops = []string{
	"set write_time t1", "set write_time t2", "clear write_time NULL", "clear write_time ''",
	"set deadline past", "set deadline future", "clear deadline NULL", "clear deadline ''",
	"begin", "commit", "rollback", "insert", "read s3db_conn",
}

func c15Run(r *engine.Run) int {
	n, depth := 3, 5
	if r.Thorough() {
		n, depth = 4, 6
	}
	r.Rule = fmt.Sprintf("(a) every history of 1..%d statements by up to 3 writers (all kinds, write-time orders, writer assignments, 2 base states) x every byte-identical retry (statement i, later position, any writer, with/without refresh first): merged rows equal the history without the retry; (b) the out-of-time-order histories against the documented rule; (c) every sequence of length 1..%d over {%s} against a model of effective write time / deadline. Non-trivial: retry actually executed / sequence sets an attribute", n, depth, strings.Join(c15Ops, ", "))
	r.Bounds["statements_max"] = n
	r.Bounds["conn_depth"] = depth
	r.Assumptions = []string{"distinct write times per conflicting row except for the retry itself", "past deadline = year 2000, future = year 2999 (no real timer fires)"}
	if r.Thorough() {
		r.SetBudget(40 * 60 * 1e9)
	}
	allKinds := []int{kInsBC, kInsB, kUpdB, kUpdC, kUpdBC, kDel}
	var cases []json.RawMessage
	for base := 0; base <= 1; base++ {
		for k := 1; k <= n; k++ {
			stmtHistories(k, 3, 1, base, 4096, allKinds, func(h hist) {
				if plausible(h) {
					cases = append(cases, engine.J(c15Case{Kind: "retry", H: h}))
				}
			})
		}
	}
	for a := range c15Ops {
		for b := range c15Ops {
			cases = append(cases, engine.J(c15Case{Kind: "conn", First: []int{a, b}, Depth: 2}))
			for c3 := range c15Ops {
				cases = append(cases, engine.J(c15Case{Kind: "conn", First: []int{a, b, c3}, Depth: depth}))
			}
		}
		cases = append(cases, engine.J(c15Case{Kind: "conn", First: []int{a}, Depth: 1}))
	}
	k := 0
	r.MapBudget("c15", cases, func(i int, c json.RawMessage, res *engine.Result) {
		r.Add("c15", c, res)
		k++
		if k%499 == 1 && res.Data != nil {
			r.Sample(json.RawMessage(res.Data))
		}
	})
	return r.Vacuity(3, 100)
}

func c15Worker(raw json.RawMessage) *engine.Result {
	var c c15Case
	must(json.Unmarshal(raw, &c))
	res := &engine.Result{}
	switch c.Kind {
	case "retry":
		c15Retry(c.H, res)
	case "conn":
		var sample []string
		for total := len(c.First); total <= c.Depth; total++ {
			seqs(len(c15Ops), total-len(c.First), func(tailOps []int) {
				ops := append(append([]int{}, c.First...), tailOps...)
				names, ok := c15Conn(res, ops)
				if ok && sample == nil && len(names) >= 3 {
					sample = names
				}
			})
			if len(c.First) == 1 {
				break
			}
		}
		res.Data = engine.J(map[string]interface{}{"kind": "conn", "ops": sample})
	}
	return res
}

// c15Final runs a history and returns the rows a fresh reader sees (nil, false if pruned/broken).
func c15Final(h hist, res *engine.Result) (engine.Rows, *hRun, bool) {
	r := hStart(h)
	if !r.run(res) {
		r.close()
		return nil, nil, false
	}
	rows, err := r.readOnlyRows("reader", 0)
	if err != nil {
		res.Violate("reader-open-failed", "%v [%s]", err, h)
		r.close()
		return nil, nil, false
	}
	res.Trans += r.trans
	return rows, r, true
}

func c15Retry(h hist, res *engine.Result) {
	base, r0, ok := c15Final(h, res)
	if !ok {
		res.Outcomes = append(res.Outcomes, "pruned")
		return
	}
	shape := r0.conflictShape()
	// (b) the documented rule also holds when execution order contradicts write-time order
	if strings.HasSuffix(shape, "out-of-time-order") {
		want := r0.expected(nil)
		if !base.Sorted().Equal(want.Sorted()) {
			res.Violate("older-write-time-reorders-history:"+shape, "history with decreasing write times ends in %v, the documented rule gives %v [%s]", base, want, h)
		}
		res.NontrivN++
	}
	r0.close()
	res.Execs++
	var sample interface{}
	for i, e := range h.Ev {
		for p := i + 1; p <= len(h.Ev); p++ {
			for w := 0; w < h.Writers; w++ {
				for _, refreshFirst := range []bool{false, true} {
					re := e
					re.W = w
					re.Retry = true
					re.Val = i + 1
					var evs []hEvent
					evs = append(evs, h.Ev[:p]...)
					if refreshFirst {
						evs = append(evs, hEvent{T: "r", W: w})
					}
					evs = append(evs, re)
					evs = append(evs, h.Ev[p:]...)
					h2 := h
					h2.Ev = evs
					// statements after the retry keep their own value tags (index in the original history)
					for j := range h2.Ev {
						if h2.Ev[j].T == "x" && !h2.Ev[j].Retry && h2.Ev[j].Val == 0 {
							// original index = position among non-retry statements
						}
					}
					h2 = retag(h, h2)
					got, r2, ok := c15Final(h2, res)
					if !ok {
						// the continuation was pruned: a later statement lost its effect because of the retry?
						res.Outcomes = append(res.Outcomes, "retry-changes-acceptance")
						// compare through a run that does not prune: not needed, acceptance changes show as row changes below in
						// shorter histories; count it
						continue
					}
					r2.close()
					res.Execs++
					res.NontrivN++
					res.Outcomes = append(res.Outcomes, "retry-executed")
					if !got.Equal(base) {
						res.Violate("retry-not-idempotent:"+shape, "re-executing statement %d (%s) with the same write_time and values at position %d on w%d (refresh first: %v) changes the merged rows: %v -> %v [%s]", i, e, p, w+1, refreshFirst, base, got, h2)
					}
					if sample == nil {
						sample = map[string]interface{}{"kind": "retry", "history": h2.String(), "rows": got}
					}
				}
			}
		}
	}
	if sample != nil {
		res.Data = engine.J(sample)
	}
}

// retag makes every original statement of h2 keep the value tag it had in h (its index there).
func retag(h, h2 hist) hist {
	orig := 0
	out := h2
	out.Ev = append([]hEvent{}, h2.Ev...)
	for j := range out.Ev {
		if out.Ev[j].T == "x" && !out.Ev[j].Retry {
			out.Ev[j].Val = orig + 1
			orig++
		}
	}
	// in h the tag of statement i is its event index; events of h are statements only, so index == orig
	return out
}

// ---- (c) connection attributes ---------------------------------------------------------------------

func c15Conn(res *engine.Result, ops []int) ([]string, bool) {
	inTx := false
	for _, o := range ops {
		switch c15Ops[o] {
		case "begin":
			if inTx {
				return nil, false
			}
			inTx = true
		case "commit", "rollback":
			if !inTx {
				return nil, false
			}
			inTx = false
		}
	}
	names := make([]string, len(ops))
	for i, o := range ops {
		names[i] = c15Ops[o]
	}
	where := fmt.Sprintf("ops=%v", names)
	w := engine.NewWorld()
	defer w.Close()
	w.SetClock(engine.T(1000))
	cl := w.NewClient("w1")
	must(cl.Create(engine.TableOpts{EPN: 2}))
	must(cl.SetWriteTime(engine.T(500)))
	must(cl.Exec("begin"))
	for k := 1; k <= 6; k++ {
		must(cl.Exec("insert into {T} values(?,?,?)", k, "p", k))
	}
	must(cl.Exec("commit"))
	must(cl.Exec("update s3db_conn set write_time=NULL"))
	t1, t2 := engine.T(2000), engine.T(3000)
	past := time.Date(2000, 1, 1, 0, 0, 0, 0, time.UTC)
	future := time.Date(2999, 1, 1, 0, 0, 0, 0, time.UTC)
	// model
	var wt, dl time.Time // user-set attributes (zero = unset)
	inTx = false
	txTouched := false   // the transaction has executed a table statement (xBegin ran)
	var txAuto time.Time // lower bound of the automatic transaction time
	nontrivial := false
	nextKey := 100
	type pend struct {
		key  int
		want time.Time // exact expected time (zero: use window)
		lo   time.Time
		alt  time.Time // alternative window start (zero: none)
	}
	explicitInTx := false // write_time was user-set at some point of this transaction ("unless the connection sets it explicitly")
	var txPending []pend
	clock := 1000
	check := func(p pend, stage string) {
		d, err := engine.LiveDump(cl.Tab)
		if err != nil {
			return
		}
		for _, e := range d.Entries {
			if e.Key != fmt.Sprintf("i%d", p.key) {
				continue
			}
			got := time.Unix(0, e.DelAt).UTC()
			if !p.want.IsZero() {
				if !got.Equal(p.want) {
					res.Violate("stored-time-differs-from-write_time", "row %d carries %s, write_time in effect was %s (%s) [%s]", p.key, got.Format(time.RFC3339Nano), p.want.Format(time.RFC3339Nano), stage, where)
				}
			} else if (got.Before(p.lo) || got.After(p.lo.Add(time.Second))) && (p.alt.IsZero() || got.Before(p.alt) || got.After(p.alt.Add(time.Second))) {
				res.Violate("stored-time-not-default-clock", "row %d carries %s, expected the clock time around %s (write_time unset) (%s) [%s]", p.key, got.Format(time.RFC3339Nano), p.lo.Format(time.RFC3339Nano), stage, where)
			}
		}
	}
	for step, o := range ops {
		op := c15Ops[o]
		clock += 100
		now := engine.T(clock)
		w.SetClock(now)
		var err error
		switch op {
		case "set write_time t1":
			nontrivial = true
			err = cl.Exec("update s3db_conn set write_time=?", engine.TS(t1))
			wt = t1
			explicitInTx = explicitInTx || inTx
		case "set write_time t2":
			nontrivial = true
			err = cl.Exec("update s3db_conn set write_time=?", engine.TS(t2))
			wt = t2
			explicitInTx = explicitInTx || inTx
		case "clear write_time NULL":
			err = cl.Exec("update s3db_conn set write_time=NULL")
			wt = time.Time{}
		case "clear write_time ''":
			err = cl.Exec("update s3db_conn set write_time=''")
			wt = time.Time{}
		case "set deadline past":
			nontrivial = true
			err = cl.Exec("update s3db_conn set deadline=?", engine.TS(past))
			dl = past
		case "set deadline future":
			err = cl.Exec("update s3db_conn set deadline=?", engine.TS(future))
			dl = future
		case "clear deadline NULL":
			err = cl.Exec("update s3db_conn set deadline=NULL")
			dl = time.Time{}
		case "clear deadline ''":
			err = cl.Exec("update s3db_conn set deadline=''")
			dl = time.Time{}
		case "begin":
			err = cl.Exec("begin")
			inTx, txTouched, txPending = true, false, nil
			explicitInTx = !wt.IsZero()
		case "commit":
			err = cl.Exec("commit")
			expired := dl.Equal(past) && len(txPending) > 0
			if expired && err == nil {
				res.Violate("deadline-ignored:commit", "COMMIT of a transaction with changes succeeded although the deadline in effect is in the past [%s]", where)
			}
			if !expired && err != nil {
				res.Violate("commit-failed", "COMMIT failed: %v [%s]", err, where)
			}
			if err != nil {
				cl.Exec("rollback")
				txPending = nil
			}
			for _, p := range txPending {
				check(p, "after commit")
			}
			inTx, txPending = false, nil
			err = nil
		case "rollback":
			err = cl.Exec("rollback")
			inTx, txPending = false, nil
		case "insert":
			nextKey++
			err = cl.Exec("insert into {T} values(?,?,?)", nextKey, "x", step)
			res.Trans++
			expired := dl.Equal(past)
			if expired && err == nil && !inTx {
				// (inside a transaction an INSERT may need no storage request at all; its COMMIT must fail)
				res.Violate("deadline-ignored:insert", "autocommit INSERT succeeded although the deadline in effect is in the past [%s]", where)
			}
			if !expired && err != nil {
				res.Violate("insert-failed", "INSERT failed although no past deadline is in effect (deadline %v): %v [%s]", dl, err, where)
			}
			if inTx && !txTouched && err == nil {
				// (an INSERT that fails under a past deadline fails in xBegin's clone already: SQLite does not
				// count the table as part of the transaction, the next statement begins it again)
				txTouched = true
				txAuto = now
			}
			if err == nil {
				p := pend{key: nextKey}
				switch {
				case !wt.IsZero():
					p.want = wt
				case inTx:
					p.lo = txAuto
					if explicitInTx {
						p.alt = now // the property leaves this open once the connection has set write_time itself
					}
				default:
					p.lo = now
				}
				if inTx {
					txPending = append(txPending, p)
				}
				check(p, "after insert")
			}
			err = nil
		case "read s3db_conn":
			rows, rerr := cl.Query("select deadline, write_time from s3db_conn")
			if rerr != nil || len(rows) != 1 {
				res.Violate("conn-read-failed", "%v %v [%s]", rows, rerr, where)
				break
			}
			parts := strings.Split(rows[0], "|")
			wantDl := "NULL"
			if !dl.IsZero() {
				wantDl = "t'" + engine.TS(dl) + "'"
			}
			if parts[0] != wantDl {
				res.Violate("deadline-readback", "s3db_conn.deadline reads %s, was set to %s [%s]", parts[0], wantDl, where)
			}
			wantWt := "NULL"
			if !wt.IsZero() {
				wantWt = "t'" + engine.TS(wt) + "'"
			}
			// inside a transaction that runs on the automatic transaction time the column may show that time
			if parts[1] != wantWt && !(wt.IsZero() && inTx && txTouched) {
				res.Violate("write_time-readback", "s3db_conn.write_time reads %s, the user-set value is %s (in transaction: %v) [%s]", parts[1], wantWt, inTx, where)
			}
		}
		if err != nil {
			res.Violate("attribute-statement-failed", "%s failed: %v [%s]", op, err, where)
		}
	}
	res.Execs++
	if nontrivial {
		res.NontrivN++
	}
	res.States = append(res.States, fmt.Sprintf("%v|%v|%v", wt.Unix(), dl.Unix(), inTx))
	res.Outcomes = append(res.Outcomes, fmt.Sprintf("wt=%v dl=%v", !wt.IsZero(), !dl.IsZero()))
	return names, true
}
