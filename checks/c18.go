package checks

import (
	"bytes"
	"context"
	"encoding/json"
	"fmt"
	"sort"
	"strings"

	"github.com/jrhy/s3db/kv"

	"verif/engine"
)

// C18 — encrypted nodes are confidential, authenticated and still deduplicate.
//
// Exhaustive over plaintext lengths 0..N (crossing the 32/64-byte boundaries of the legacy box) x three
// passphrases: round trip, determinism, every single-bit flip, every truncation, extension, wrong
// passphrase; legacy-format ciphertext for every length.  End to end through kv.Open with the encryptor:
// no plaintext window in stored node objects, unchanged content re-uses object names, wrong passphrase
// fails.

type c18Case struct {
	Kind string `json:"kind"` // unit | e2e
	Len  int    `json:"len"`
	Pass int    `json:"pass"`
}

var c18Pass = [][]byte{nil, []byte("k"), []byte("a fairly long passphrase, forty bytes ok"), []byte("ends with a line terminator\r\n")}

// c18Near derives passphrases that differ from p only marginally (what a "normalising" key derivation would
// conflate): each of them is a DIFFERENT passphrase and must be rejected.
func c18Near(p []byte) [][]byte {
	cat := func(a, b []byte) []byte { return append(append([]byte{}, a...), b...) }
	out := [][]byte{cat(p, []byte("\n")), cat(p, []byte("\r\n")), cat(p, []byte("\r")), cat(p, []byte(" ")), cat(p, []byte{0}), cat([]byte(" "), p), cat(p, p), bytes.ToUpper(p), bytes.TrimRight(p, "\r\n"), bytes.TrimSpace(p)}
	var res [][]byte
	for _, o := range out {
		if !bytes.Equal(o, p) {
			res = append(res, o)
		}
	}
	return res
}

func init() {
	All["C18"] = &Check{Level: "exploration", Run: c18Run}
	engine.RegisterWorker("c18", c18Worker)
}

func c18Run(r *engine.Run) int {
	maxLen := 130
	if r.Thorough() {
		maxLen = 300
	}
	r.Rule = fmt.Sprintf("plaintext lengths 0..%d x 4 passphrases (empty, 1 byte, 40 bytes, one ending in CR LF): round trip, determinism, every single-bit flip of the ciphertext, every truncation, 1-byte extension, the other passphrases and up to 10 passphrases that differ marginally (trailing LF / CR LF / CR / blank / NUL, leading blank, doubled, other case, trimmed) in both directions, legacy-format ciphertext of the same plaintext; plus end-to-end runs through kv.Open with the encryptor (plaintext windows in stored objects, object-name reuse, wrong passphrase). Non-trivial = every corruption / length evaluated", maxLen)
	r.Bounds["max_len"] = maxLen
	r.Bounds["passphrases"] = len(c18Pass)
	r.Assumptions = []string{"confidentiality is decided only in the observable sense of the property (no plaintext bytes, authenticated, deterministic), not as a cryptographic proof"}
	var cases []json.RawMessage
	for p := range c18Pass {
		for l := 0; l <= maxLen; l++ {
			cases = append(cases, engine.J(c18Case{Kind: "unit", Len: l, Pass: p}))
		}
		for _, n := range []int{1, 5, 40} {
			cases = append(cases, engine.J(c18Case{Kind: "e2e", Len: n, Pass: p}))
		}
		if p > 0 {
			cases = append(cases, engine.J(c18Case{Kind: "e2e-merge", Len: 12, Pass: p}))
		}
	}
	n := 0
	engine.Map("c18", cases, func(i int, c json.RawMessage, res *engine.Result) {
		r.Add("c18", c, res)
		n++
		if n%67 == 1 && res.Data != nil {
			r.Sample(json.RawMessage(res.Data))
		}
	})
	return r.Vacuity(2, 100)
}

func c18Plain(n int) []byte {
	b := make([]byte, n)
	for i := range b {
		b[i] = byte(37*i + 11)
	}
	return b
}

func c18Worker(raw json.RawMessage) *engine.Result {
	var c c18Case
	must(json.Unmarshal(raw, &c))
	res := &engine.Result{}
	pass := c18Pass[c.Pass]
	enc := kv.V1NodeEncryptor(pass)
	if c.Kind == "e2e-merge" {
		c18Merge(res, c)
		return res
	}
	if c.Kind == "e2e" {
		c18E2E(res, c)
		return res
	}
	where := fmt.Sprintf("len=%d passphrase#%d", c.Len, c.Pass)
	plain := c18Plain(c.Len)
	ct, err := enc.Encrypt("node/x", plain)
	if err != nil {
		res.Violate("encrypt-failed", "%v [%s]", err, where)
		return res
	}
	res.Execs++
	ct2, _ := kv.V1NodeEncryptor(pass).Encrypt("node/other", plain)
	if !bytes.Equal(ct, ct2) {
		res.Violate("not-deterministic", "equal plaintext under the same passphrase gives different ciphertext [%s]", where)
	}
	pt, err := enc.Decrypt("node/x", ct)
	if err != nil || !bytes.Equal(pt, plain) {
		res.Violate("round-trip", "decrypt(encrypt(p)) = %x (err %v), want %x [%s]", pt, err, plain, where)
	}
	if c.Len >= 4 && bytes.Contains(ct, plain[:4]) {
		res.Violate("plaintext-in-ciphertext", "ciphertext contains the first 4 plaintext bytes [%s]", where)
	}
	// every single-bit flip
	for i := 0; i < len(ct)*8; i++ {
		m := append([]byte{}, ct...)
		m[i/8] ^= 1 << uint(i%8)
		out, err := enc.Decrypt("node/x", m)
		res.Execs++
		res.NontrivN++
		if err == nil {
			res.Violate("bit-flip-accepted", "ciphertext with bit %d flipped decrypts without error to %x [%s]", i, out, where)
			break
		}
	}
	// every truncation, and extension
	for n := 0; n < len(ct); n++ {
		out, err := enc.Decrypt("node/x", ct[:n])
		res.Execs++
		res.NontrivN++
		if err == nil {
			res.Violate("truncation-accepted", "ciphertext truncated to %d of %d bytes decrypts without error to %x [%s]", n, len(ct), out, where)
			break
		}
	}
	for _, extra := range [][]byte{{0}, {0xff}, ct[len(ct)-1:]} {
		if out, err := enc.Decrypt("node/x", append(append([]byte{}, ct...), extra...)); err == nil {
			res.Violate("extension-accepted", "ciphertext extended by %x decrypts without error to %x [%s]", extra, out, where)
		}
		res.Execs++
	}
	// other passphrases
	for p2, pw := range c18Pass {
		if p2 == c.Pass {
			continue
		}
		if out, err := kv.V1NodeEncryptor(pw).Decrypt("node/x", ct); err == nil {
			res.Violate("wrong-passphrase-accepted", "ciphertext decrypts under passphrase #%d to %x [%s]", p2, out, where)
		}
		res.Execs++
		res.NontrivN++
	}
	// ... and passphrases that differ only marginally (trailing line terminator, blank, NUL, case, doubling), both ways
	for _, pw := range c18Near(pass) {
		if out, err := kv.V1NodeEncryptor(pw).Decrypt("node/x", ct); err == nil {
			res.Violate("near-passphrase-accepted", "ciphertext under %q decrypts under the different passphrase %q to %x [%s]", pass, pw, out, where)
		}
		if ct2, err := kv.V1NodeEncryptor(pw).Encrypt("node/x", plain); err == nil {
			if out, err := enc.Decrypt("node/x", ct2); err == nil {
				res.Violate("near-passphrase-accepted", "ciphertext under %q decrypts under the different passphrase %q to %x [%s]", pw, pass, out, where)
			}
		}
		res.Execs += 2
		res.NontrivN += 2
	}
	// legacy box format stays readable, and is authenticated too
	leg, err := kv.VerifLegacySeal(pass, plain)
	if err != nil {
		res.Violate("legacy-seal-failed", "%v [%s]", err, where)
		return res
	}
	out, err := enc.Decrypt("node/x", leg)
	if err != nil || !bytes.Equal(out, plain) {
		res.Violate("legacy-unreadable", "data written by the earlier box format decrypts to %x (err %v), want %x [%s]", out, err, plain, where)
	}
	for i := 0; i < len(leg)*8; i++ {
		m := append([]byte{}, leg...)
		m[i/8] ^= 1 << uint(i%8)
		o, err := enc.Decrypt("node/x", m)
		res.Execs++
		res.NontrivN++
		if err == nil {
			res.Violate("legacy-bit-flip-accepted", "legacy ciphertext with bit %d flipped decrypts without error to %x [%s]", i, o, where)
			break
		}
	}
	res.Outcome = fmt.Sprintf("len%%16=%d", c.Len%16)
	res.Data = engine.J(map[string]interface{}{"len": c.Len, "passphrase": c.Pass, "ciphertext_len": len(ct), "corruptions_tried": res.NontrivN})
	return res
}

func c18E2E(res *engine.Result, c c18Case) {
	ctx := context.Background()
	where := fmt.Sprintf("e2e entries=%d passphrase#%d", c.Len, c.Pass)
	b := engine.NewBucket()
	h := b.Handle("enc")
	w := engine.NewWorldOn(b)
	defer w.Close()
	w.SetClock(engine.T(1000))
	cfg := kv.Config{
		Storage:       &kv.S3BucketInfo{EndpointURL: "verif-kv", BucketName: "bk", Prefix: "enc"},
		KeysLike:      "",
		ValuesLike:    "",
		BranchFactor:  4,
		NodeEncryptor: kv.V1NodeEncryptor(c18Pass[c.Pass]),
	}
	db, err := kv.Open(ctx, h, cfg, kv.OpenOptions{}, engine.T(1))
	if err != nil {
		res.Violate("open-failed", "%v [%s]", err, where)
		return
	}
	defer db.Cancel()
	var secrets []string
	for i := 0; i < c.Len; i++ {
		k, v := fmt.Sprintf("SECRETKEY-%04d-KEY", i), fmt.Sprintf("SECRETVALUE-%04d-VALUE", i)
		secrets = append(secrets, k, v)
		must(db.Set(ctx, engine.T(10+i), k, v))
	}
	if _, err := db.Commit(ctx); err != nil {
		res.Violate("commit-failed", "%v [%s]", err, where)
		return
	}
	res.Execs++
	res.NontrivN++
	nodes := b.Keys("enc/node/")
	if len(nodes) == 0 {
		res.Violate("no-nodes", "no node objects written [%s]", where)
	}
	for _, n := range nodes {
		body, _ := b.Get(n)
		for _, s := range secrets {
			for i := 0; i+4 <= len(s); i++ {
				if bytes.Contains(body, []byte(s[i:i+4])) {
					res.Violate("plaintext-in-stored-node", "stored object %s contains the plaintext window %q [%s]", n, s[i:i+4], where)
					return
				}
			}
		}
	}
	// a second handle reads everything back
	db2, err := kv.Open(ctx, h, cfg, kv.OpenOptions{ReadOnly: true}, engine.T(2))
	if err != nil {
		res.Violate("reopen-failed", "%v [%s]", err, where)
		return
	}
	for i := 0; i < c.Len; i++ {
		var v string
		ok, err := db2.Get(ctx, fmt.Sprintf("SECRETKEY-%04d-KEY", i), &v)
		if err != nil || !ok || v != fmt.Sprintf("SECRETVALUE-%04d-VALUE", i) {
			res.Violate("encrypted-read-back", "entry %d reads (%q,%v,%v) [%s]", i, v, ok, err, where)
			break
		}
	}
	// unchanged nodes are not stored twice: adding one entry re-writes only the path to it, every other node
	// keeps its name (equal plaintext => equal ciphertext => same content-addressed name), and nothing is ever
	// re-written with different bytes (store immutability invariant)
	db3, err := kv.Open(ctx, h, cfg, kv.OpenOptions{}, engine.T(3))
	if err == nil {
		defer db3.Cancel()
		mark := b.LogLen()
		must(db3.Set(ctx, engine.T(500), "ZZZ-one-more-key", "ZZZ-one-more-value"))
		if _, err := db3.Commit(ctx); err != nil {
			res.Violate("commit-failed", "%v [%s]", err, where)
		}
		puts := 0
		for _, rq := range b.LogSince(mark) {
			if rq.Op == "PUT" && strings.Contains(rq.Key, "/node/") {
				puts++
				for _, old := range nodes {
					if old == rq.Key {
						res.Violate("unchanged-node-stored-again", "adding one entry stored the existing node %s again [%s]", rq.Key, where)
					}
				}
			}
		}
		kept := 0
		after := b.Keys("enc/node/")
		for _, n := range after {
			for _, old := range nodes {
				if n == old {
					kept++
				}
			}
		}
		if kept != len(nodes) {
			res.Violate("node-objects-disappeared", "node objects of the previous version are gone after an unrelated commit [%s]", where)
		}
		if len(nodes) >= 4 && puts >= len(nodes) {
			res.Violate("unchanged-nodes-rewritten", "adding one entry to a tree of %d nodes wrote %d node objects: unchanged nodes are stored again under new names [%s]", len(nodes), puts, where)
		}
	}
	if len(b.Broken) > 0 {
		res.Violate("store-invariant", "%v [%s]", b.Broken, where)
	}
	// wrong passphrase fails the open / the reads
	cfg2 := cfg
	cfg2.NodeEncryptor = kv.V1NodeEncryptor([]byte("not the passphrase"))
	dbw, err := kv.Open(ctx, h, cfg2, kv.OpenOptions{ReadOnly: true}, engine.T(4))
	if err == nil {
		var v string
		ok, gerr := dbw.Get(ctx, "SECRETKEY-0000-KEY", &v)
		if gerr == nil && ok {
			res.Violate("wrong-passphrase-reads-data", "a handle with a different passphrase reads %q [%s]", v, where)
		}
	}
	// a corrupted stored node is reported: flip one bit in every node object in turn; reading all entries
	// through a fresh handle must then hit an error, and must never yield different data
	for _, n := range b.Keys("enc/node/") {
		body, _ := b.Get(n)
		m := append([]byte{}, body...)
		m[len(m)/2] ^= 0x40
		b.Put(n, m)
	}
	if dbc, err := kv.Open(ctx, h, cfg, kv.OpenOptions{ReadOnly: true}, engine.T(5)); err == nil {
		bad := false
		for i := 0; i < c.Len; i++ {
			var v string
			ok, gerr := dbc.Get(ctx, fmt.Sprintf("SECRETKEY-%04d-KEY", i), &v)
			if gerr != nil {
				bad = true
				continue
			}
			if ok && v != fmt.Sprintf("SECRETVALUE-%04d-VALUE", i) {
				res.Violate("corrupted-node-yields-data", "a modified stored object yields %q for entry %d instead of an error [%s]", v, i, where)
			}
			if ok {
				res.Violate("corrupted-node-not-detected", "every stored node object was modified but entry %d still reads without error [%s]", i, where)
				break
			}
		}
		_ = bad
	}
	c18Faults(res, c, secrets)
	res.Outcome = "e2e"
	res.Data = engine.J(map[string]interface{}{"kind": "e2e", "entries": c.Len, "node_objects": len(nodes)})
}

// c18Faults repeats the encrypted commit with every single request failed once (before taking effect, and
// after taking effect): whatever the outcome, no stored object may contain plaintext, and what a new handle
// can read must be correct.
func c18Faults(res *engine.Result, c c18Case, secrets []string) {
	ctx := context.Background()
	// count the requests of the fault-free commit
	run := func(k int, mode engine.FaultMode) {
		b := engine.NewBucket()
		h := b.Handle("enc")
		w := engine.NewWorldOn(b)
		defer w.Close()
		cfg := kv.Config{
			Storage:       &kv.S3BucketInfo{EndpointURL: "verif-kv", BucketName: "bk", Prefix: "enc"},
			KeysLike:      "",
			ValuesLike:    "",
			BranchFactor:  4,
			NodeEncryptor: kv.V1NodeEncryptor(c18Pass[c.Pass]),
		}
		db, err := kv.Open(ctx, h, cfg, kv.OpenOptions{}, engine.T(1))
		if err != nil {
			return
		}
		defer db.Cancel()
		for i := 0; i < c.Len; i++ {
			must(db.Set(ctx, engine.T(10+i), fmt.Sprintf("SECRETKEY-%04d-KEY", i), fmt.Sprintf("SECRETVALUE-%04d-VALUE", i)))
		}
		n := -1
		fired := ""
		h.Fault = func(rq *engine.Req) (engine.FaultMode, error) {
			n++
			if n == k {
				fired = rq.String()
				return mode, engine.ErrAWS500()
			}
			return engine.FaultNone, nil
		}
		_, cerr := db.Commit(ctx)
		h.Fault = nil
		if fired == "" {
			return
		}
		res.Execs++
		res.NontrivN++
		where := fmt.Sprintf("e2e entries=%d passphrase#%d, fault on request #%d %s (mode %d), commit err=%v", c.Len, c.Pass, k, fired, mode, cerr)
		for _, key := range b.Keys("enc/node/") {
			body, _ := b.Get(key)
			for _, s := range secrets {
				if bytes.Contains(body, []byte(s[:8])) {
					res.Violate("plaintext-in-stored-node-after-fault", "stored object %s contains the plaintext %q [%s]", key, s[:8], where)
					return
				}
			}
		}
		if cerr == nil {
			db2, err := kv.Open(ctx, h, cfg, kv.OpenOptions{ReadOnly: true}, engine.T(2))
			if err != nil {
				res.Violate("acknowledged-encrypted-commit-unreadable", "%v [%s]", err, where)
				return
			}
			for i := 0; i < c.Len; i++ {
				var v string
				ok, gerr := db2.Get(ctx, fmt.Sprintf("SECRETKEY-%04d-KEY", i), &v)
				if gerr != nil || !ok || v != fmt.Sprintf("SECRETVALUE-%04d-VALUE", i) {
					res.Violate("acknowledged-encrypted-commit-unreadable", "entry %d reads (%q,%v,%v) after a commit that reported success [%s]", i, v, ok, gerr, where)
					return
				}
			}
		}
	}
	for k := 0; k < 3*c.Len+8; k++ {
		run(k, engine.FailBefore)
		run(k, engine.ApplyThenFail)
	}
}

// c18Merge: two writers commit side by side on an encrypted prefix (two unmerged versions, multi-level trees).
// Then, for EVERY node object in turn, one bit of it is flipped and the prefix is opened the ordinary way (a
// listing open that merges the two versions) and read completely. A node that fails authentication must surface
// as an error of the open or of a read; it must never make rows disappear quietly.
func c18Merge(res *engine.Result, c c18Case) {
	ctx := context.Background()
	where := fmt.Sprintf("e2e-merge entries=2x%d passphrase#%d", c.Len, c.Pass)
	base := engine.NewBucket()
	mkcfg := func() kv.Config {
		return kv.Config{
			Storage:       &kv.S3BucketInfo{EndpointURL: "verif-kv", BucketName: "bk", Prefix: "enc"},
			KeysLike:      "",
			ValuesLike:    "",
			BranchFactor:  4,
			NodeEncryptor: kv.V1NodeEncryptor(c18Pass[c.Pass]),
		}
	}
	{
		w := engine.NewWorldOn(base)
		w.SetClock(engine.T(1000))
		h := base.Handle("enc")
		var dbs []*kv.DB
		for i := 0; i < 2; i++ { // both opened before either commits: the versions do not descend from each other
			db, err := kv.Open(ctx, h, mkcfg(), kv.OpenOptions{}, engine.T(1+i))
			if err != nil {
				res.Violate("open-failed", "%v [%s]", err, where)
				w.Close()
				return
			}
			dbs = append(dbs, db)
		}
		for wi, db := range dbs {
			for i := 0; i < c.Len; i++ {
				must(db.Set(ctx, engine.T(10+i+100*wi), fmt.Sprintf("w%d-key-%03d", wi, i), fmt.Sprintf("w%d-value-%03d", wi, i)))
			}
			if _, err := db.Commit(ctx); err != nil {
				res.Violate("commit-failed", "%v [%s]", err, where)
			}
			db.Cancel()
		}
		w.Close()
	}
	objs := base.Snapshot()
	var nodes []string
	for k := range objs {
		if strings.Contains(k, "/node/") {
			nodes = append(nodes, k)
		}
	}
	sort.Strings(nodes)
	readAll := func(b *engine.Bucket) (int, error) {
		w := engine.NewWorldOn(b)
		defer w.Close()
		w.SetClock(engine.T(2000))
		db, err := kv.Open(ctx, b.Handle("rd"), mkcfg(), kv.OpenOptions{ReadOnly: true}, engine.T(50))
		if err != nil {
			return 0, err
		}
		defer db.Cancel()
		n := 0
		for wi := 0; wi < 2; wi++ {
			for i := 0; i < c.Len; i++ {
				var v string
				ok, err := db.Get(ctx, fmt.Sprintf("w%d-key-%03d", wi, i), &v)
				if err != nil {
					return n, err
				}
				if ok && v == fmt.Sprintf("w%d-value-%03d", wi, i) {
					n++
				}
			}
		}
		return n, nil
	}
	if n, err := readAll(engine.NewBucketFrom(objs)); err != nil || n != 2*c.Len {
		res.Violate("merge-read-back", "uncorrupted: the merging open reads %d of %d entries (err %v) [%s]", n, 2*c.Len, err, where)
		return
	}
	for _, node := range nodes {
		for _, bit := range []int{0, len(objs[node])*8 - 1, len(objs[node]) * 4} {
			m := map[string][]byte{}
			for k, v := range objs {
				m[k] = v
			}
			body := append([]byte{}, objs[node]...)
			body[bit/8] ^= 1 << uint(bit%8)
			m[node] = body
			n, err := readAll(engine.NewBucketFrom(m))
			res.Execs++
			res.NontrivN++
			if err == nil && n != 2*c.Len {
				res.Violate("corrupted-node-drops-rows-quietly", "with bit %d of %s flipped the merging open and all reads succeed but only %d of %d entries are returned [%s]", bit, node, n, 2*c.Len, where)
				return
			}
			if err == nil {
				res.Violate("corrupted-node-accepted", "with bit %d of %s flipped everything still reads without error [%s]", bit, node, where)
				return
			}
		}
	}
	res.Outcome = "e2e-merge"
	res.Data = engine.J(map[string]interface{}{"kind": "e2e-merge", "entries": 2 * c.Len, "node_objects": len(nodes), "passphrase": c.Pass})
}
