package checks

import (
	"encoding/json"
	"fmt"
	"strings"

	"verif/engine"
)

// C13 — a read-only table never modifies the bucket.
//
// Every operation sequence up to a depth over the read-only surface, on every
// base bucket state (0..3 unmerged heads, with/without delete markers, two
// rows-per-object settings), with a real writer adding heads in between.
// Oracle: the store-level invariant "a handle flagged read-only issues no PUT
// and no DELETE", plus: write statements that reach the table fail and leave
// its visible rows unchanged.

type c13Case struct {
	// Heads 0..3 = that many unmerged heads with different rows; 10 = two heads with identical content
	// (two loaders, same rows, same write_time); 11 = an ancestor and its descendant both still under
	// root/current (the state a crash between the version PUT and the retire step leaves); 12 = two unmerged
	// heads with DIFFERENT rows-per-object settings (two creators of the same empty table): the open refuses
	// to merge them, which is fine - but it must not write either
	Heads int   `json:"heads"`
	Del   bool  `json:"del"`
	EPN   int   `json:"epn"`
	First []int `json:"first"` // fixed first operations (sharding)
	Depth int   `json:"depth"` // total depth
	// Alpha, when set, restricts the operations after First to these indices of c13Ops (the deeper slice)
	Alpha []int `json:"alpha,omitempty"`
}

// c13DeepOps: the operations that matter for state carried from one statement to the next on a read-only table
var c13DeepOps = []string{"delete-nothing", "insert", "begin", "rollback", "refresh", "writer-adds-head", "select"}

var c13Ops = []string{
	"select", "select-desc-range", "insert", "update", "delete", "delete-nothing", "update-nothing", "begin", "commit", "rollback",
	"refresh", "version", "changes", "vacuum-past", "vacuum-future", "writer-adds-head",
}

func init() {
	All["C13"] = &Check{Level: "model_checking", Run: c13Run}
	engine.RegisterWorker("c13", c13Worker)
}

func c13Run(r *engine.Run) int {
	depth := 3
	if r.Thorough() {
		depth = 4
	}
	r.Rule = "all operation sequences of the given depth over the read-only surface (" + strings.Join(c13Ops, ",") +
		") on every base state heads∈{0..3}×delete-markers×entries_per_node∈{2,4096}; a case is non-trivial when it contains a write attempt, refresh, vacuum or a concurrent writer"
	r.Bounds["depth"] = depth
	r.Bounds["alphabet"] = c13Ops
	r.Bounds["heads"] = []string{"0", "1", "2", "3", "2 identical", "ancestor+descendant", "2 with different rows-per-object"}
	r.Bounds["entries_per_node"] = []int{2, 4096}
	r.Assumptions = []string{"fake store has S3's consistency (atomic objects, strong LIST)", "clients run sequentially in this check (concurrency is C03/C19)"}
	var cases []json.RawMessage
	for _, heads := range []int{0, 1, 2, 3, 10, 11, 12} {
		for _, del := range []bool{false, true} {
			if (heads == 0 || heads >= 10) && del {
				continue
			}
			for _, epn := range []int{2, 4096} {
				for a := range c13Ops {
					for b := range c13Ops {
						cases = append(cases, engine.J(c13Case{Heads: heads, Del: del, EPN: epn, First: []int{a, b}, Depth: depth}))
					}
				}
			}
		}
	}
	// one step deeper over the smaller alphabet c13DeepOps
	var deep []int
	for _, name := range c13DeepOps {
		for i, o := range c13Ops {
			if o == name {
				deep = append(deep, i)
			}
		}
	}
	r.Bounds["deeper_slice"] = map[string]interface{}{"alphabet": c13DeepOps, "depth": depth + 1}
	for _, heads := range []int{1, 2} {
		for _, epn := range []int{2, 4096} {
			for _, a := range deep {
				for _, b := range deep {
					cases = append(cases, engine.J(c13Case{Heads: heads, EPN: epn, First: []int{a, b}, Depth: depth + 1, Alpha: deep}))
				}
			}
		}
	}
	engine.Map("c13", cases, func(i int, c json.RawMessage, res *engine.Result) {
		r.Add("c13", c, res)
		if i%977 == 0 {
			r.Sample(json.RawMessage(res.Data))
		}
	})
	return r.Vacuity(3, 100)
}

var c13Base = map[string]map[string][]byte{}

func c13BaseBucket(heads int, del bool, epn int) map[string][]byte {
	key := fmt.Sprintf("%d/%v/%d", heads, del, epn)
	if m, ok := c13Base[key]; ok {
		return m
	}
	w := engine.NewWorld()
	w.SetClock(engine.T(100))
	if heads == 10 {
		var cs []*engine.Client
		for i := 0; i < 2; i++ {
			c := w.NewClient(fmt.Sprintf("w%d", i+1))
			must(c.Create(engine.TableOpts{EPN: epn}))
			cs = append(cs, c)
		}
		for _, c := range cs {
			must(c.SetWriteTime(engine.T(200)))
			must(c.Exec("begin"))
			for k := 11; k <= 15; k++ {
				must(c.Exec("insert into {T} values(?,?,?)", k, "same", k))
			}
			must(c.Exec("commit"))
		}
		w.Close()
		m := w.B.Snapshot()
		c13Base[key] = m
		return m
	}
	if heads == 12 {
		var cs []*engine.Client
		for i, e := range []int{2, 3} {
			c := w.NewClient(fmt.Sprintf("w%d", i+1))
			must(c.Create(engine.TableOpts{EPN: e}))
			cs = append(cs, c)
		}
		for i, c := range cs {
			must(c.SetWriteTime(engine.T(200 + 10*i)))
			must(c.Exec("begin"))
			for k := 1; k <= 5; k++ {
				must(c.Exec("insert into {T} values(?,?,?)", 10*(i+1)+k, fmt.Sprintf("b%d", i), k))
			}
			must(c.Exec("commit"))
		}
		w.Close()
		m := w.B.Snapshot()
		c13Base[key] = m
		return m
	}
	if heads == 11 {
		c := w.NewClient("w1")
		must(c.Create(engine.TableOpts{EPN: epn}))
		must(c.SetWriteTime(engine.T(200)))
		must(c.Exec("begin"))
		for k := 11; k <= 15; k++ {
			must(c.Exec("insert into {T} values(?,?,?)", k, "b", k))
		}
		must(c.Exec("commit"))
		before := w.B.Snapshot()
		must(c.SetWriteTime(engine.T(210)))
		must(c.Exec("insert into {T} values(16,'b',16)"))
		w.Close()
		m := w.B.Snapshot()
		// undo the retire step: the ancestor is still under root/current/
		for k, v := range before {
			if strings.Contains(k, "/root/current/") {
				m[k] = v
			}
		}
		c13Base[key] = m
		return m
	}
	var cs []*engine.Client
	for i := 0; i < heads; i++ {
		c := w.NewClient(fmt.Sprintf("w%d", i+1))
		must(c.Create(engine.TableOpts{EPN: epn}))
		cs = append(cs, c)
	}
	for i, c := range cs {
		must(c.SetWriteTime(engine.T(200 + 10*i)))
		must(c.Exec("begin"))
		for k := 1; k <= 5; k++ {
			must(c.Exec("insert into {T} values(?,?,?)", 10*(i+1)+k, fmt.Sprintf("b%d", i), k))
		}
		must(c.Exec("commit"))
		if del {
			must(c.SetWriteTime(engine.T(300 + 10*i)))
			must(c.Exec("delete from {T} where a=?", 10*(i+1)+2))
		}
	}
	w.Close()
	m := w.B.Snapshot()
	c13Base[key] = m
	return m
}

func must(err error) {
	if err != nil {
		panic(err)
	}
}

func c13Worker(raw json.RawMessage) *engine.Result {
	var c c13Case
	must(json.Unmarshal(raw, &c))
	res := &engine.Result{}
	base := c13BaseBucket(c.Heads, c.Del, c.EPN)
	rest := c.Depth - len(c.First)
	var sample []string
	nAlpha := len(c13Ops)
	if len(c.Alpha) > 0 {
		nAlpha = len(c.Alpha)
	}
	seqs(nAlpha, rest, func(tailOps []int) {
		ops := append([]int{}, c.First...)
		for _, t := range tailOps {
			if len(c.Alpha) > 0 {
				t = c.Alpha[t]
			}
			ops = append(ops, t)
		}
		names := c13RunSeq(res, base, c, ops)
		if sample == nil {
			sample = names
		}
		res.Execs++
	})
	res.Data = engine.J(map[string]interface{}{"heads": c.Heads, "delete_markers": c.Del, "entries_per_node": c.EPN, "ops": sample})
	return res
}

func c13RunSeq(res *engine.Result, base map[string][]byte, c c13Case, ops []int) []string {
	b := engine.NewBucketFrom(base)
	w := engine.NewWorldOn(b)
	defer w.Close()
	w.SetClock(engine.T(1000))
	ro := w.NewClient("ro")
	ro.H.ReadOnly = true
	names := make([]string, len(ops))
	for i, o := range ops {
		names[i] = c13Ops[o]
	}
	tag := func() string {
		return fmt.Sprintf("heads=%d del=%v epn=%d ops=%v", c.Heads, c.Del, c.EPN, names)
	}
	if err := ro.Create(engine.TableOpts{EPN: c.EPN, ReadOnly: true}); err != nil {
		if c.Heads == 12 {
			// versions with different rows-per-object settings are not merged; the refused open must not have written
			if len(b.Broken) > 0 {
				res.Violate("ro-store-mutation:"+strings.Fields(b.Broken[0])[4], "%s (read-only open that was refused: %v; %s)", strings.Join(b.Broken, "; "), err, tag())
			}
			res.Outcomes = append(res.Outcomes, "open-refused")
			res.NontrivN++
			return names
		}
		res.Violate("ro-open-failed", "read-only open failed: %v (%s)", err, tag())
		return names
	}
	rows := func() (engine.Rows, error) { return ro.Query("select a,b,c from {T} order by a") }
	nontrivial := false
	writers := 0
	inTx := false
	for step, o := range ops {
		before, berr := rows()
		if berr != nil {
			res.Violate("ro-select-failed", "select failed at step %d: %v (%s)", step, berr, tag())
			return names
		}
		has := func(k int) bool {
			for _, r := range before {
				if strings.HasPrefix(r, fmt.Sprintf("i%d|", k)) {
					return true
				}
			}
			return false
		}
		mustFail := false
		isWrite := false
		var err error
		switch c13Ops[o] {
		case "select":
			_, err = ro.Query("select * from {T} where a>=11 and a<25")
		case "select-desc-range":
			_, err = ro.Query("select * from {T} where a<=23 order by a desc limit 3")
		case "insert":
			isWrite, mustFail = true, true
			err = ro.Exec("insert into {T} values(999,'x',1)")
		case "update":
			isWrite, mustFail = true, has(11)
			err = ro.Exec("update {T} set b='changed' where a=11")
		case "delete":
			isWrite, mustFail = true, has(13)
			err = ro.Exec("delete from {T} where a=13")
		case "delete-nothing":
			// a write statement that matches no row: nothing to refuse, nothing may change
			isWrite = true
			err = ro.Exec("delete from {T} where a=999")
		case "update-nothing":
			isWrite = true
			err = ro.Exec("update {T} set b='changed' where a=999")
		case "begin":
			if inTx {
				continue
			}
			err = ro.Exec("begin")
			inTx = err == nil
		case "commit":
			if !inTx {
				continue
			}
			err = ro.Exec("commit")
			inTx = false
		case "rollback":
			if !inTx {
				continue
			}
			err = ro.Exec("rollback")
			inTx = false
		case "refresh":
			nontrivial = true
			err = ro.Refresh()
		case "version":
			_, err = ro.Version()
		case "changes":
			var v string
			v, err = ro.Version()
			if err == nil {
				name := fmt.Sprintf("{T}_ch%d", step)
				err = ro.Exec("create virtual table " + name + " using s3db_changes(table='{T}', from='[]', to='" + v + "')")
				if err == nil {
					_, err = ro.Query("select * from " + name)
					ro.Exec("drop table " + name)
				}
			}
		case "vacuum-past":
			nontrivial = true
			_, err = ro.Vacuum(engine.T(50))
		case "vacuum-future":
			nontrivial = true
			_, err = ro.Vacuum(engine.T(5000))
		case "writer-adds-head":
			nontrivial = true
			writers++
			wr := w.NewClient(fmt.Sprintf("x%d", writers))
			if e := wr.Create(engine.TableOpts{EPN: c.EPN}); e != nil {
				res.Violate("writer-open-failed", "writer open failed: %v (%s)", e, tag())
				return names
			}
			wr.SetWriteTime(engine.T(2000 + writers))
			if e := wr.Exec("insert into {T} values(?,?,?)", 500+writers, "w", writers); e != nil {
				res.Violate("writer-insert-failed", "writer insert failed: %v (%s)", e, tag())
			}
			wr.Close()
			continue
		}
		if isWrite {
			nontrivial = true
			if mustFail && err == nil {
				res.Violate("ro-write-accepted:"+c13Ops[o], "write statement %q on a read-only table succeeded (%s)", c13Ops[o], tag())
			}
			after, aerr := rows()
			if aerr != nil || !after.Equal(before) {
				res.Violate("ro-rows-changed:"+c13Ops[o], "rows changed by %q on read-only table: before=%v after=%v err=%v (%s)", c13Ops[o], before, after, aerr, tag())
			}
		}
		_ = err
	}
	if len(b.Broken) > 0 {
		res.Violate("ro-store-mutation:"+strings.Fields(b.Broken[0])[4], "%s (%s)", strings.Join(b.Broken, "; "), tag())
	}
	final, _ := rows()
	res.States = append(res.States, b.Hash()+"|"+strings.Join(final, ";")+fmt.Sprint(inTx))
	res.Outcomes = append(res.Outcomes, fmt.Sprintf("rows=%d", len(final)))
	res.Trans += len(ops)
	if nontrivial {
		res.NontrivN++
	}
	return names
}
