package checks

import (
	"encoding/hex"
	"encoding/json"
	"fmt"
	"math"
	"math/big"
	"strconv"
	"strings"

	"github.com/jrhy/s3db"

	"verif/engine"
)

// C07 — key order is a total order that matches SQLite, and equal keys are one key.
//
// Exhaustive over a boundary alphabet V of key values (all four storage classes): every ordered pair
// against SQLite's own comparison, every triple for the order axioms, layer agreement of equal keys for
// several branch factors, and end to end (every ordered pair inserted into a multi-level tree) against
// a native table.

// val is a typed SQLite value in JSON-safe form.
type val struct {
	T string `json:"t"` // i r t b n
	S string `json:"s"` // decimal / float bits (hex) / text (hex) / blob (hex)
}

func vInt(i int64) val       { return val{"i", strconv.FormatInt(i, 10)} }
func vReal(f float64) val    { return val{"r", strconv.FormatUint(math.Float64bits(f), 16)} }
func vText(s string) val     { return val{"t", hex.EncodeToString([]byte(s))} }
func vBlob(b []byte) val     { return val{"b", hex.EncodeToString(b)} }
func vNull() val             { return val{"n", ""} }
func (v val) String() string { return engine.Render(v.Go()) }

// Go returns the driver value to bind.
func (v val) Go() interface{} {
	switch v.T {
	case "i":
		i, _ := strconv.ParseInt(v.S, 10, 64)
		return i
	case "r":
		u, _ := strconv.ParseUint(v.S, 16, 64)
		return math.Float64frombits(u)
	case "t":
		b, _ := hex.DecodeString(v.S)
		return string(b)
	case "b":
		b, _ := hex.DecodeString(v.S)
		if b == nil {
			b = []byte{}
		}
		return b
	}
	return nil
}

func c07Alphabet(thorough bool) []val {
	p53 := int64(1) << 53
	vs := []val{}
	for _, i := range []int64{math.MinInt64, -p53 - 1, -p53, -1, 0, 1, 2, 4, p53, p53 + 1, math.MaxInt64 - 1, math.MaxInt64} {
		vs = append(vs, vInt(i))
	}
	for _, f := range []float64{math.Inf(-1), -9.3e18, -9.223372036854775808e18, -float64(p53), -1.5, math.Copysign(0, -1), 0.0, 0.5, 1.0, 2.0, 4.0, float64(p53), float64(p53) + 2, 9.223372036854775807e18, 9.3e18, math.Inf(1)} {
		vs = append(vs, vReal(f))
	}
	for _, s := range []string{"", "A", "a", "ab", "b", "é", "\U00010000"} {
		vs = append(vs, vText(s))
	}
	for _, b := range [][]byte{{}, {0}, {0x61}, {0x61, 0}, {0xff}} {
		vs = append(vs, vBlob(b))
	}
	if thorough {
		for _, i := range []int64{math.MinInt64 + 1, -(int64(1) << 62), -4, -3, -2, 3, 8, 16, 255, 256, 4096, 1 << 31, 1 << 32, (1 << 53) - 1, (1 << 62), (1 << 62) + 1} {
			vs = append(vs, vInt(i))
		}
		for _, f := range []float64{-9.223372036854777e18, -4.0, -2.5, -1.0, -0.5, math.SmallestNonzeroFloat64, 1.5, 3.0, 3.0000000000000004, 8.0, 4096.0, float64(p53) - 1, 4.611686018427388e18, 9.223372036854774e18, math.MaxFloat64} {
			vs = append(vs, vReal(f))
		}
		for _, s := range []string{" ", "0", "1", "1.0", "aa", "a\x00", "B", "z", "\u00e9a", "\uffff"} {
			vs = append(vs, vText(s))
		}
		for _, b := range [][]byte{{0, 0}, {0x31}, {0x61, 0x61}, {0xc3, 0xa9}, {0xff, 0xff}} {
			vs = append(vs, vBlob(b))
		}
	}
	return vs
}

type c07Case struct {
	Kind string `json:"kind"` // pairs | triples | e2e | orderall
	I    int    `json:"i"`
	J    int    `json:"j,omitempty"`
	EPN  int    `json:"epn,omitempty"`
	Th   bool   `json:"th,omitempty"`
}

// c07KeyForms: every way to declare the key column (column constraint / table constraint, key first / not first)
var c07KeyForms = []string{"a primary key, b", "a, b, primary key(a)", "b, a primary key", "b, a, primary key(a)", "a integer primary key not null, b", "a, b, primary key(A)"}

func init() {
	All["C07"] = &Check{Level: "exploration", Run: c07Run}
	engine.RegisterWorker("c07", c07Worker)
}

func c07Run(r *engine.Run) int {
	V := c07Alphabet(r.Thorough())
	th := r.Thorough()
	r.Rule = fmt.Sprintf("boundary alphabet of %d key values (INTEGER incl. ±2^53±1 and int64 limits, REAL incl. ±0, ±inf, 2^53+2, 2^63, TEXT, BLOB): all ordered pairs vs SQLite's comparison and for Layer agreement (branch factors 2,3,4,16,4096), all triples for transitivity, all ordered pairs inserted end-to-end into multi-level trees (entries_per_node 2,3,4096) vs a native table; a pair is non-trivial when the two values differ", len(V))
	r.Bounds["alphabet_size"] = len(V)
	epns := []int{2, 3, 4096}
	if th {
		epns = []int{2, 3, 4, 16, 4096}
	}
	r.Bounds["entries_per_node"] = epns
	r.Assumptions = []string{"SQLite's comparison of bound values is the reference order", "values outside the alphabet are not covered"}
	var cases []json.RawMessage
	for i := range V {
		cases = append(cases, engine.J(c07Case{Kind: "pairs", I: i, Th: th}))
		cases = append(cases, engine.J(c07Case{Kind: "triples", I: i, Th: th}))
		for j := range V {
			for _, epn := range epns {
				cases = append(cases, engine.J(c07Case{Kind: "e2e", I: i, J: j, EPN: epn, Th: th}))
			}
		}
	}
	for _, epn := range []int{2, 3, 4, 4096} {
		cases = append(cases, engine.J(c07Case{Kind: "orderall", EPN: epn, Th: th}))
		for form := range c07KeyForms {
			cases = append(cases, engine.J(c07Case{Kind: "nullkey", EPN: epn, I: form}))
		}
		cases = append(cases, engine.J(c07Case{Kind: "emptytext", EPN: epn}))
	}
	// equal keys are one key also when the row came into view through another writer: all sequences of inserts and
	// deletes of two keys by two writers and their refreshes (the event engine of C11), oracle = the outcome of
	// every statement agrees with the rows the connection itself shows
	{
		var alpha []int
		for i, o := range vOps {
			switch o {
			case "w1:insert 1", "w1:insert 2", "w1:delete 1", "w2:insert 1", "w2:insert 2", "w2:delete 1", "w1:refresh", "w2:refresh", "w1:update 1":
				alpha = append(alpha, i)
			}
		}
		var vc []json.RawMessage
		d := 4
		if th {
			d = 5
		}
		for _, epn := range []int{2, 4096} {
			for _, a := range alpha {
				for _, b := range alpha {
					vc = append(vc, engine.J(vCase{Mode: "c07", EPN: epn, First: []int{a, b}, Depth: d, Alpha: alpha}))
				}
			}
		}
		r.Bounds["two_writer_outcome_sequences"] = map[string]interface{}{"depth": d, "events": len(alpha)}
		engine.Map("versions", vc, func(i int, c json.RawMessage, res *engine.Result) {
			r.Add("versions", c, res)
			if res.Data != nil {
				r.Sample(json.RawMessage(res.Data))
			}
		})
	}
	n := 0
	engine.Map("c07", cases, func(i int, c json.RawMessage, res *engine.Result) {
		if res.Died && !res.TimedOut {
			// a Go panic inside an SQLite callback may also take the worker down instead of being recovered;
			// for the equal-numeric-key pairs that is the same (known) root cause and gets the same class
			var cc c07Case
			if json.Unmarshal(c, &cc) == nil && cc.Kind == "e2e" && cc.EPN < 4096 && sqlEqualDistinct(V[cc.I], V[cc.J]) {
				res = &engine.Result{Execs: 1, Viol: []engine.Viol{{Class: "equal-numeric-keys-distinct-representation|multi-level", Msg: "worker died: " + engine.PanicLine(res.Stderr)}}}
			}
		}
		r.Add("c07", c, res)
		n++
		if res.Data != nil && n%997 == 1 {
			r.Sample(json.RawMessage(res.Data))
		}
	})
	return r.Vacuity(2, 100)
}

func sign(i int) int {
	if i < 0 {
		return -1
	}
	if i > 0 {
		return 1
	}
	return 0
}

// typePair abstracts a pair of values to their storage classes (for class keys).
func typePair(x, y val) string { return x.T + y.T }

func c07Worker(raw json.RawMessage) *engine.Result {
	var c c07Case
	must(json.Unmarshal(raw, &c))
	res := &engine.Result{}
	V := c07Alphabet(c.Th)
	switch c.Kind {
	case "pairs":
		w := engine.NewWorld()
		defer w.Close()
		cl := w.NewClient("q")
		x := V[c.I]
		kx := s3db.NewKey(x.Go())
		for _, y := range V {
			ky := s3db.NewKey(y.Go())
			row, err := cl.Query("select ?1 < ?2, ?1 = ?2", x.Go(), y.Go())
			must(err)
			want := 1
			switch row[0] {
			case "i1|i0":
				want = -1
			case "i0|i1":
				want = 0
			}
			got := sign(kx.Order(ky))
			rev := sign(ky.Order(kx))
			res.Execs++
			if x != y {
				res.NontrivN++
			}
			res.Outcomes = append(res.Outcomes, fmt.Sprintf("%s:%d", typePair(x, y), want))
			if got != want {
				res.Violate("order-vs-sqlite:"+typePair(x, y), "Order(%v, %v) = %d, SQLite says %d", x, y, got, want)
			}
			if got != -rev {
				res.Violate("antisymmetry:"+typePair(x, y), "Order(%v,%v)=%d but Order(%v,%v)=%d", x, y, got, y, x, rev)
			}
			if want == 0 {
				for _, bf := range []uint{2, 3, 4, 16, 4096} {
					if lx, ly := kx.Layer(bf), ky.Layer(bf); lx != ly {
						res.Violate("equal-keys-different-layer", "%v and %v are equal for SQLite but Layer(%d) = %d vs %d", x, y, bf, lx, ly)
						break
					}
				}
			}
		}
		res.Data = engine.J(map[string]interface{}{"kind": "pairs", "x": x.String(), "against": len(V)})
	case "triples":
		x := V[c.I]
		kx := s3db.NewKey(x.Go())
		keys := make([]*s3db.Key, len(V))
		for i, v := range V {
			keys[i] = s3db.NewKey(v.Go())
		}
		for yi, y := range V {
			xy := sign(kx.Order(keys[yi]))
			for zi, z := range V {
				yz := sign(keys[yi].Order(keys[zi]))
				xz := sign(kx.Order(keys[zi]))
				res.Execs++
				if x != y && y != z && x != z {
					res.NontrivN++
				}
				if xy <= 0 && yz <= 0 && xz > 0 {
					res.Violate("transitivity:"+x.T+y.T+z.T, "%v <= %v and %v <= %v but %v > %v", x, y, y, z, x, z)
				}
				if xy == 0 && yz == 0 && xz != 0 {
					res.Violate("equality-transitivity:"+x.T+y.T+z.T, "%v = %v = %v but Order(%v,%v)=%d", x, y, z, x, z, xz)
				}
				if xy < 0 && yz < 0 && xz >= 0 {
					res.Violate("transitivity:"+x.T+y.T+z.T, "%v < %v < %v but Order(%v,%v)=%d", x, y, z, x, z, xz)
				}
			}
		}
		res.Outcome = "triples"
	case "e2e":
		x, y := V[c.I], V[c.J]
		c07E2E(res, x, y, c.EPN)
		res.Data = engine.J(map[string]interface{}{"kind": "insert-pair", "epn": c.EPN, "x": x.String(), "y": y.String()})
	case "orderall":
		w := engine.NewWorld()
		defer w.Close()
		w.SetClock(engine.T(1000))
		cl := w.NewClient("w1")
		must(cl.Create(engine.TableOpts{Columns: "a primary key, b", EPN: c.EPN}))
		must(cl.Exec("create table nat(a primary key, b) without rowid"))
		for i, v := range V {
			if v.T == "t" && v.S == "" {
				continue // emptytext case
			}
			dup := false
			for _, u := range V[:i] {
				if sqlEqualDistinct(u, v) {
					dup = true // equal-numeric pairs are the e2e cases' business
				}
			}
			if dup {
				continue
			}
			nerr := cl.Exec("insert into nat values(?,?)", v.Go(), i)
			serr := cl.Exec("insert into {T} values(?,?)", v.Go(), i)
			res.Trans++
			if engine.ErrClass(nerr) != engine.ErrClass(serr) {
				res.Violate("orderall-insert:"+v.T+":native="+engine.ErrClass(nerr)+":s3db="+engine.ErrClass(serr), "insert %v: native %v, s3db %v (epn=%d, after inserting %d values of the alphabet)", v, nerr, serr, c.EPN, i)
			}
		}
		for _, q := range []string{"select typeof(a), a, b from %s order by a", "select typeof(a), a, b from %s order by a desc", "select typeof(a), a from %s where a>0.5 order by a", "select typeof(a), a from %s where a<'a' order by a desc"} {
			want, _ := cl.Query(fmt.Sprintf(q, "nat"))
			got, err := cl.Query(fmt.Sprintf(q, "{T}"))
			if err != nil || !got.Equal(want) {
				res.Violate("orderall-scan", "%s (epn=%d): %s err=%v", q, c.EPN, engine.Diff(want, got), err)
			}
		}
		res.Execs, res.NontrivN = 1, 1
		res.Outcome = "orderall"
	case "emptytext":
		w := engine.NewWorld()
		defer w.Close()
		w.SetClock(engine.T(1000))
		cl := w.NewClient("w1")
		must(cl.Create(engine.TableOpts{Columns: "a primary key, b", EPN: c.EPN}))
		must(cl.Exec("create table nat(a primary key, b) without rowid"))
		for i, v := range []interface{}{"", "x", 5, ""} {
			nerr := cl.Exec("insert into nat values(?,?)", v, i)
			serr := cl.Exec("insert into {T} values(?,?)", v, i)
			res.Trans++
			if engine.ErrClass(nerr) != engine.ErrClass(serr) {
				res.Violate("empty-text-key-outcome", "insert %v: native %v, s3db %v (epn=%d)", engine.Render(v), nerr, serr, c.EPN)
			}
		}
		for _, q := range []string{"select typeof(a), a, b from %s order by a", "select typeof(a), a, b from %s where a=''", "select count(*) from %s where a<'x'"} {
			want, _ := cl.Query(fmt.Sprintf(q, "nat"))
			got, err := cl.Query(fmt.Sprintf(q, "{T}"))
			if err != nil || !got.Equal(want) {
				res.Violate("empty-text-key-reads-null", "%s (epn=%d): %s err=%v", q, c.EPN, engine.Diff(want, got), err)
				break
			}
		}
		res.Execs, res.NontrivN = 1, 1
		res.Outcome = "emptytext"
	case "nullkey":
		w := engine.NewWorld()
		defer w.Close()
		w.SetClock(engine.T(1000))
		cl := w.NewClient("w1")
		form := c07KeyForms[c.I]
		if err := cl.Create(engine.TableOpts{Columns: form, EPN: c.EPN}); err != nil {
			if c.I == len(c07KeyForms)-1 {
				res.Outcome = "nullkey" // the case-mismatched key reference may be refused (see C20)
				res.Execs = 1
				return res
			}
			res.Violate("key-form-rejected", "columns='%s' rejected: %v", form, err)
			return res
		}
		nulls := []string{"insert into {T}(a,b) values(NULL, 1)", "insert into {T}(b) values(1)", "insert into {T}(a,b) values(?, 1)"}
		try := func(stage string) {
			before, _ := cl.Query("select a,b from {T} order by a")
			for _, q := range nulls {
				var err error
				if strings.Contains(q, "?") {
					err = cl.Exec(q, nil)
				} else {
					err = cl.Exec(q)
				}
				res.Trans++
				if err == nil {
					res.Violate("null-key-accepted", "%s succeeded on the %s table (columns='%s', epn=%d)", q, stage, form, c.EPN)
				}
			}
			after, err := cl.Query("select a,b from {T} order by a")
			if err != nil || !after.Equal(before) {
				res.Violate("null-key-changed-table", "rows changed by rejected NULL-key inserts into the %s table: %v -> %v (%v) (columns='%s')", stage, before, after, err, form)
			}
		}
		try("empty")
		for i := 1; i <= 9; i++ {
			must(cl.Exec("insert into {T}(a,b) values(?,?)", i, i))
		}
		try("populated")
		// and an equal key is one key in every form
		if err := cl.Exec("insert into {T}(a,b) values(5,'again')"); engine.ErrClass(err) != "pk" {
			res.Violate("duplicate-key-accepted", "second INSERT of key 5: %v (columns='%s', epn=%d)", err, form, c.EPN)
		}
		if rows, err := cl.Query("select count(*) from {T} where a=5"); err != nil || len(rows) != 1 || rows[0] != "i1" {
			res.Violate("duplicate-key-accepted", "after the second INSERT of key 5 the table holds %v rows with that key (err %v) (columns='%s')", rows, err, form)
		}
		res.Execs, res.NontrivN = 1, 1
		res.Outcome = "nullkey"
	}
	return res
}

// sqlEqualDistinct reports whether x and y are equal for SQLite although their stored representation differs
// (INTEGER n vs REAL n.0, -0.0 vs 0.0).
func sqlEqualDistinct(x, y val) bool {
	if x == y || (x.T != "i" && x.T != "r") || (y.T != "i" && y.T != "r") {
		return false
	}
	return sign(exactCmp(x, y)) == 0
}

// exactCmp compares two numeric vals exactly (independent of the implementation).
func exactCmp(x, y val) int {
	bx, by := new(big.Float).SetPrec(200), new(big.Float).SetPrec(200)
	set := func(b *big.Float, v val) {
		if v.T == "i" {
			b.SetInt64(v.Go().(int64))
		} else {
			f := v.Go().(float64)
			if math.IsInf(f, 0) {
				b.SetInf(f < 0)
			} else {
				b.SetFloat64(f)
			}
		}
	}
	set(bx, x)
	set(by, y)
	return bx.Cmp(by)
}

func c07E2E(res *engine.Result, x, y val, epn int) {
	if x.T == "t" && x.S == "" || y.T == "t" && y.S == "" {
		res.Execs = 1
		return // the empty text key has its own case (emptytext)
	}
	start := len(res.Viol)
	defer func() {
		if p := recover(); p != nil {
			res.Violate("go-panic:"+engine.NormalizePanic(fmt.Sprint(p)), "panic: %v [epn=%d insert %v, insert %v]", p, epn, x, y)
			engine.Poisoned, res.Poisoned = true, true
		}
		if sqlEqualDistinct(x, y) && len(res.Viol) > start {
			// one class per root cause: equal numeric keys stored with distinct representations
			shape := "single-node"
			if epn < 4096 {
				shape = "multi-level"
			}
			msgs := []string{}
			for _, v := range res.Viol[start:] {
				msgs = append(msgs, v.Class+": "+v.Msg)
			}
			res.Viol = res.Viol[:start]
			res.Violate("equal-numeric-keys-distinct-representation|"+shape, "%s", strings.Join(msgs, "\n"))
		}
	}()
	w := engine.NewWorld()
	defer w.Close()
	w.SetClock(engine.T(1000))
	cl := w.NewClient("w1")
	must(cl.Create(engine.TableOpts{Columns: "a primary key, b", EPN: epn}))
	must(cl.Exec("create table nat(a primary key, b) without rowid"))
	must(cl.Exec("begin"))
	for i := 101; i <= 116; i++ {
		must(cl.Exec("insert into nat values(?,0)", i))
		must(cl.Exec("insert into {T} values(?,0)", i))
	}
	must(cl.Exec("commit"))
	where := fmt.Sprintf("epn=%d prefill=101..116 then insert %v, insert %v", epn, x, y)
	tp := typePair(x, y)
	for i, v := range []val{x, y} {
		w.SetClock(engine.T(1010 + 10*i))
		nerr := cl.Exec("insert into nat values(?,?)", v.Go(), i+1)
		serr := cl.Exec("insert into {T} values(?,?)", v.Go(), i+1)
		res.Trans++
		if nc, sc := engine.ErrClass(nerr), engine.ErrClass(serr); nc != sc {
			res.Violate(fmt.Sprintf("insert-pair-outcome:%s:native=%s:s3db=%s", tp, nc, sc), "insert #%d: native %v, s3db %v [%s]", i+1, nerr, serr, where)
		}
	}
	for _, q := range []string{"select typeof(a), a, b from %s order by a", "select typeof(a), a, b from %s where a=?1 or a=?2"} {
		want, _ := cl.Query(fmt.Sprintf(q, "nat"), x.Go(), y.Go())
		got, err := cl.Query(fmt.Sprintf(q, "{T}"), x.Go(), y.Go())
		if !strings.Contains(q, "order by") {
			want, got = want.Sorted(), got.Sorted()
		}
		if err != nil || !got.Equal(want) {
			res.Violate("insert-pair-rows:"+tp, "%s: %s err=%v [%s]", q, engine.Diff(want, got), err, where)
		}
	}
	// fresh connection sees the same
	f := w.NewClient("fresh")
	if err := f.Create(engine.TableOpts{Columns: "a primary key, b", EPN: epn}); err != nil {
		res.Violate("insert-pair-reopen:"+tp, "re-open failed: %v [%s]", err, where)
	} else {
		want, _ := cl.Query("select typeof(a), a, b from nat order by a")
		got, err := f.Query("select typeof(a), a, b from {T} order by a")
		if err != nil || !got.Equal(want) {
			res.Violate("insert-pair-reopen-rows:"+tp, "fresh connection: %s err=%v [%s]", engine.Diff(want, got), err, where)
		}
	}
	res.Execs++
	if x != y {
		res.NontrivN++
	}
	res.Outcomes = append(res.Outcomes, "e2e:"+tp)
}
