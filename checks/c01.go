package checks

import (
	"encoding/json"
	"fmt"
	"sort"
	"strings"

	"verif/engine"
)

// C01 — multi-writer merge converges regardless of merge order, grouping and repetition.
// C02 — conflicts resolve as documented (per-column last-write-wins, sticky deletes).
//
// Both enumerate all histories of up to N statements by up to 3 writers over a small statement
// alphabet with every assignment of distinct write-time ranks, every canonical assignment to writers,
// and every placement of up to M refresh / merging-open events (with every permutation of the version
// list at those opens).  They differ in the oracle evaluated at the end of every history.

type mCase struct {
	Mode  string `json:"mode"` // c01 | c02
	H     hist   `json:"h"`
	MaxRM int    `json:"maxrm"`
	Sub   int    `json:"sub,omitempty"` // resurrect subsets up to this size (c01)
}

func init() {
	All["C01"] = &Check{Level: "model_checking", Run: func(r *engine.Run) int { return mRun(r, "c01") }}
	All["C02"] = &Check{Level: "model_checking", Run: func(r *engine.Run) int { return mRun(r, "c02") }}
	engine.RegisterWorker("merge", mWorker)
	engine.RegisterWorker("mergepair", mPairWorker)
}

// stmtHistories enumerates the statement skeletons: kinds x keys x canonical writers x rank orders.
func stmtHistories(n, writers, keys int, base, epn int, kinds []int, f func(hist)) {
	rankPerms := perms(n)
	wseqs := writerSeqs(n, writers)
	kk := make([]int, n)
	var rec func(i int)
	rec = func(i int) {
		if i == n {
			for _, ws := range wseqs {
				for _, rp := range rankPerms {
					h := hist{Base: base, EPN: epn, Writers: writers}
					for j := 0; j < n; j++ {
						h.Ev = append(h.Ev, hEvent{T: "x", W: ws[j], Kind: kinds[kk[j]%len(kinds)], Key: kk[j] / len(kinds), Rank: rp[j] + 1})
					}
					f(h)
				}
			}
			return
		}
		for k := 0; k < len(kinds)*keys; k++ {
			kk[i] = k
			rec(i + 1)
		}
	}
	rec(0)
}

// plausible prunes skeletons whose first statement cannot have an effect on the base state.
func plausible(h hist) bool {
	seenIns := map[int]bool{}
	if h.Base == 1 {
		seenIns[0] = true
	}
	for _, e := range h.Ev {
		isIns := e.Kind == kInsBC || e.Kind == kInsB
		if !isIns && !seenIns[e.Key] {
			return false // UPDATE/DELETE of a key nobody ever inserted
		}
		if isIns {
			seenIns[e.Key] = true
		}
	}
	return true
}

func mRun(r *engine.Run, mode string) int {
	allKinds := []int{kInsBC, kInsB, kUpdB, kUpdC, kUpdBC, kDel}
	type tier struct {
		n, keys, maxrm, sub int
		epns                []int
	}
	t := tier{n: 3, keys: 1, maxrm: 1, sub: 1, epns: []int{4096}}
	if r.Thorough() {
		t = tier{n: 4, keys: 1, maxrm: 1, sub: 3, epns: []int{4096}}
	}
	if mode == "c01" {
		r.Rule = "all histories of 1..N statements over {INSERT(b,c), INSERT(b), UPDATE b, UPDATE c, UPDATE b,c, DELETE} by up to 3 writers, all rank (write-time) orders, canonical writer assignments, two base states, with up to M refresh / merging-open events at every position and every permutation of the version list at those opens; at the end of each: every permutation of the heads for a read-only open, every resurrected retired ancestor (subsets), read-write open + quiescence; across histories: same set of statement-bearing versions => same rows. Non-trivial = >=2 accepted statements on one key by different writers or with non-monotone times"
	} else {
		r.Rule = "same history space as C01; oracle = reference model R-row (README conflict rule folded in write-time order over the accepted statements) for a fresh reader and for each writer's own view. Non-trivial = >=2 accepted statements on one key"
	}
	r.Bounds["statements_max"] = t.n
	r.Bounds["writers"] = 3
	r.Bounds["keys"] = t.keys
	r.Bounds["refresh_or_merge_events_max"] = t.maxrm
	r.Bounds["entries_per_node"] = t.epns
	r.Bounds["resurrect_subset_max"] = t.sub
	r.Assumptions = []string{"distinct write times per conflicting row (ties are outside the property)", "fake store has S3's consistency", "clients run sequentially (interleavings of requests are C03)"}
	if r.Thorough() {
		r.SetBudget(45 * 60 * 1e9)
	} else {
		r.SetBudget(10 * 60 * 1e9)
	}
	var cases []json.RawMessage
	for _, epn := range t.epns {
		for base := 0; base <= 1; base++ {
			for n := 1; n <= t.n; n++ {
				stmtHistories(n, 3, t.keys, base, epn, allKinds, func(h hist) {
					if plausible(h) {
						cases = append(cases, engine.J(mCase{Mode: mode, H: h, MaxRM: t.maxrm, Sub: t.sub}))
					}
				})
			}
		}
	}
	// deeper single-writer slice: one more statement than the multi-writer space, all write-time orders, no
	// refresh/merge events (a single writer with decreasing write times already exercises every row-merge branch)
	{
		n := t.n + 1
		if r.Thorough() {
			n = t.n + 1
		}
		r.Bounds["single_writer_statements"] = n
		for base := 0; base <= 1; base++ {
			stmtHistories(n, 1, 1, base, 4096, allKinds, func(h hist) {
				if plausible(h) {
					h.Writers = 1
					cases = append(cases, engine.J(mCase{Mode: mode, H: h, MaxRM: 0, Sub: 1}))
				}
			})
		}
	}
	if mode == "c02" {
		// the same histories (up to 2 writers) on a table with a non-key column BEFORE the key and one after it:
		// which columns a statement writes must not depend on where the key is declared
		km := 0
		for base := 0; base <= 1; base++ {
			for n := 1; n <= 3; n++ {
				stmtHistories(n, 2, 1, base, 4096, allKinds, func(h hist) {
					if plausible(h) {
						h.KeyMid = true
						cases = append(cases, engine.J(mCase{Mode: mode, H: h, MaxRM: t.maxrm, Sub: t.sub}))
						km++
					}
				})
			}
		}
		r.Bounds["key_in_the_middle_histories"] = km
	}
	if r.Thorough() {
		// transaction grouping: consecutive statements of one writer wrapped in BEGIN..COMMIT
		for base := 0; base <= 1; base++ {
			for n := 2; n <= 3; n++ {
				stmtHistories(n, 3, 1, base, 4096, allKinds, func(h hist) {
					if !plausible(h) {
						return
					}
					for i := 0; i+1 < len(h.Ev); i++ {
						if h.Ev[i].W != h.Ev[i+1].W {
							continue
						}
						h2 := h
						h2.Ev = append([]hEvent{}, h.Ev...)
						h2.Ev[i].Tx, h2.Ev[i+1].Tx = 1, 2
						cases = append(cases, engine.J(mCase{Mode: mode, H: h2, MaxRM: 1, Sub: 1}))
						if i == 0 && len(h.Ev) == 3 && h.Ev[2].W == h.Ev[0].W {
							h3 := h
							h3.Ev = append([]hEvent{}, h.Ev...)
							h3.Ev[0].Tx, h3.Ev[2].Tx = 1, 2
							cases = append(cases, engine.J(mCase{Mode: mode, H: h3, MaxRM: 1, Sub: 1}))
						}
					}
				})
			}
		}
		// second slice: two keys and small rows-per-object (multi-level trees), 3 statements
		for _, epn := range []int{2} {
			for base := 0; base <= 1; base++ {
				stmtHistories(3, 3, 2, base, epn, allKinds, func(h hist) {
					if plausible(h) {
						cases = append(cases, engine.J(mCase{Mode: mode, H: h, MaxRM: 1, Sub: 1}))
					}
				})
			}
		}
	}
	// grouping independence across histories: same set of statement-bearing versions => same rows
	type groupRec struct {
		rows string
		hist string
		h    hist
	}
	groups := map[string]groupRec{}
	n := 0
	r.MapBudget("merge", cases, func(i int, c json.RawMessage, res *engine.Result) {
		if !r.Add("merge", c, res) {
			return
		}
		n++
		if res.Data == nil {
			return
		}
		var d mData
		if json.Unmarshal(res.Data, &d) != nil {
			return
		}
		if d.Sample != nil && (r.NSamples() < 3 || n%2003 == 1) {
			r.Sample(d.Sample)
		}
		if mode != "c01" {
			return
		}
		for _, g := range d.Groups {
			if old, ok := groups[g.Key]; ok {
				if old.rows != g.Rows {
					r.Violation("mergepair", engine.J(mPair{A: old.h, B: g.H}), "grouping-dependence:"+g.Shape, fmt.Sprintf("two histories merged the same set of statement-bearing versions but show different rows:\n  %s\n    -> %s\n  %s\n    -> %s", old.hist, old.rows, g.Hist, g.Rows))
				}
			} else {
				groups[g.Key] = groupRec{g.Rows, g.Hist, g.H}
			}
		}
	})
	r.Extra["version_sets_compared"] = len(groups)
	return r.Vacuity(3, 100)
}

type mGroup struct {
	Key   string `json:"k"`
	Rows  string `json:"r"`
	Hist  string `json:"h"`
	H     hist   `json:"hh"`
	Shape string `json:"s"`
}

// mPair is the replayable form of a grouping-dependence witness: two histories that commit the same
// statement-bearing versions.
type mPair struct {
	A, B hist
}

func mPairWorker(raw json.RawMessage) *engine.Result {
	var p mPair
	must(json.Unmarshal(raw, &p))
	res := &engine.Result{Execs: 2}
	var keys, rows, shapes []string
	for _, h := range []hist{p.A, p.B} {
		r := hStart(h)
		if !r.run(res) {
			r.close()
			return res
		}
		vs := append([]string{}, r.versions...)
		sort.Strings(vs)
		keys = append(keys, strings.Join(vs, "\n--\n"))
		got, err := r.readOnlyRows("pair", 0)
		if err != nil {
			res.Violate("reader-open-failed", "%v [%s]", err, h)
		}
		rows = append(rows, strings.Join(got, ";"))
		shapes = append(shapes, r.conflictShape())
		r.close()
	}
	if keys[0] == keys[1] && rows[0] != rows[1] {
		res.Violate("grouping-dependence:"+shapes[1], "two histories merged the same set of statement-bearing versions but show different rows:\n  %s\n    -> %s\n  %s\n    -> %s", p.A, rows[0], p.B, rows[1])
	}
	return res
}

type mData struct {
	Groups []mGroup    `json:"g,omitempty"`
	Sample interface{} `json:"sample,omitempty"`
}

// mWorker enumerates, for one statement skeleton, all placements of up to MaxRM refresh/merge events.
func mWorker(raw json.RawMessage) *engine.Result {
	var c mCase
	must(json.Unmarshal(raw, &c))
	res := &engine.Result{}
	data := &mData{}
	var rec func(h hist, budget int, fromPos int)
	rec = func(h hist, budget int, fromPos int) {
		ok := mExec(c, h, res, data)
		if !ok || budget == 0 {
			return
		}
		// insert one more event at a position >= fromPos (positions count statements before the event; >= 1)
		for pos := fromPos; pos <= len(h.Ev); pos++ {
			if pos == 0 {
				continue
			}
			var evs []hEvent
			for w := 0; w < h.Writers; w++ {
				evs = append(evs, hEvent{T: "r", W: w})
			}
			evs = append(evs, hEvent{T: "m"})
			for _, ev := range evs {
				for p := 0; p < 24; p++ {
					ev.P = p
					nh := h
					nh.Ev = append(append(append([]hEvent{}, h.Ev[:pos]...), ev), h.Ev[pos:]...)
					// run the new history; a pruned permutation index ends the p loop
					before := len(res.Viol)
					pr := mProbe(c, nh, pos)
					if pr == "permutation-out-of-range" || pr == "merge-open-redundant" {
						break
					}
					_ = before
					rec2 := func() { rec(nh, budget-1, pos+1) }
					rec2()
					if c.Mode == "c02" {
						break // the conflict rule does not depend on the merge order: sorted order only
					}
				}
			}
		}
	}
	rec(c.H, c.MaxRM, 1)
	res.Data = engine.J(data)
	return res
}

// mProbe executes the history up to and including event pos and reports why it was pruned ("" if not).
func mProbe(c mCase, h hist, pos int) string {
	r := hStart(hist{Base: h.Base, EPN: h.EPN, Writers: h.Writers, KeyMid: h.KeyMid, Ev: h.Ev[:pos+1]})
	defer r.close()
	scratch := &engine.Result{}
	for i, e := range r.h.Ev {
		if !r.step(i, e, scratch) {
			return r.pruned
		}
	}
	return ""
}

func mExec(c mCase, h hist, res *engine.Result, data *mData) bool {
	r := hStart(h)
	defer r.close()
	if !r.run(res) {
		res.Outcomes = append(res.Outcomes, "pruned:"+r.pruned)
		return false
	}
	res.Execs++
	res.Trans += r.trans
	shape := r.conflictShape()
	// non-triviality: >= 2 accepted statements on one key
	perKey := map[int]int{}
	nontrivial := false
	for _, s := range r.accepted {
		perKey[s.Key]++
		if perKey[s.Key] >= 2 {
			nontrivial = true
		}
	}
	if nontrivial {
		res.NontrivN++
	}
	if len(r.w.B.Broken) > 0 {
		res.Violate("store-invariant", "%v [%s]", r.w.B.Broken, h)
	}
	if c.Mode == "c02" {
		mOracleC02(r, res, shape)
	} else {
		mOracleC01(c, r, res, data, shape)
	}
	if data.Sample == nil && nontrivial {
		rows, _ := r.readOnlyRows("sample", 0)
		data.Sample = map[string]interface{}{"history": h.String(), "rows": rows}
	}
	return true
}

func mOracleC02(r *hRun, res *engine.Result, shape string) {
	got, err := r.readOnlyRows("reader", 0)
	if err != nil {
		res.Violate("reader-open-failed", "%v [%s]", err, r.h)
		return
	}
	want := r.expected(nil)
	res.Outcomes = append(res.Outcomes, fmt.Sprintf("rows=%d", len(want)))
	res.States = append(res.States, shape+"=>"+strings.Join(got, ";"))
	if !got.Sorted().Equal(want.Sorted()) {
		res.Violate("conflict-rule:"+shape, "merged rows differ from the documented conflict rule: want %v got %v [%s]", want, got, r.h)
	}
	for w, c := range r.cl {
		own, err := c.Query(selAll)
		r.trans++
		if err != nil {
			res.Violate("writer-select-failed", "%v [%s]", err, r.h)
			continue
		}
		wantOwn := r.expected(func(idx int) bool { return r.known[w][idx] })
		if !own.Sorted().Equal(wantOwn.Sorted()) {
			res.Violate("conflict-rule-own-view:"+r.viewShape(w), "writer w%d's own view differs from the conflict rule over the statements it issued or merged: want %v got %v [%s]", w+1, wantOwn, own, r.h)
		}
	}
}

// viewShape is conflictShape restricted to what writer w knows.
func (r *hRun) viewShape(w int) string {
	var st []aStmt
	for idx, s := range r.accepted {
		if r.known[w][idx] {
			st = append(st, s)
		}
	}
	return shapeOf(st)
}

func mOracleC01(c mCase, r *hRun, res *engine.Result, data *mData, shape string) {
	heads := r.heads()
	nperm := fact(len(heads))
	if nperm > 24 {
		nperm = 24
	}
	var first engine.Rows
	for p := 0; p < nperm; p++ {
		rows, err := r.readOnlyRows(fmt.Sprintf("ro%d", p), p)
		if err != nil {
			res.Violate("reader-open-failed", "read-only open under permutation %d failed: %v [%s]", p, err, r.h)
			return
		}
		if p == 0 {
			first = rows
		} else if !rows.Equal(first) {
			res.Violate("merge-order-dependence:"+shape, "readers merging the same %d versions in different orders see different rows: order 0 -> %v, order %d -> %v [%s]", len(heads), first, p, rows, r.h)
			break
		}
	}
	res.Outcomes = append(res.Outcomes, fmt.Sprintf("heads=%d", len(heads)))
	res.States = append(res.States, shape+"=>"+strings.Join(first, ";"))
	// grouping key: the set of statement-bearing versions
	vs := append([]string{}, r.versions...)
	sort.Strings(vs)
	data.Groups = append(data.Groups, mGroup{Key: engine.HashObjs(map[string][]byte{"k": []byte(fmt.Sprint(r.h.Base, r.h.EPN) + strings.Join(vs, "\n--\n"))}), Rows: strings.Join(first, ";"), Hist: r.h.String(), H: r.h, Shape: shape})
	// merging a retired ancestor again changes nothing
	l := engine.TableLayout("p")
	_, merged := engine.Versions(r.w.B.Snapshot(), l)
	subsets := [][]string{}
	for i := range merged {
		subsets = append(subsets, []string{merged[i]})
	}
	if c.Sub >= 2 {
		for i := range merged {
			for j := i + 1; j < len(merged); j++ {
				subsets = append(subsets, []string{merged[i], merged[j]})
			}
		}
	}
	if c.Sub >= 3 && len(merged) >= 3 {
		subsets = append(subsets, merged)
	}
	for _, sub := range subsets {
		for _, m := range sub {
			b, _ := r.w.B.Get(l.Merged() + m)
			r.w.B.Put(l.Current()+m, b)
		}
		rows, err := r.readOnlyRows("res", 0)
		var rows2 engine.Rows
		if err == nil && len(sub) == 1 {
			// and in the opposite merge order
			rows2, err = r.readOnlyRows("res2", fact(len(heads)+1)-1)
		} else {
			rows2 = rows
		}
		for _, m := range sub {
			r.w.B.Del(l.Current() + m)
		}
		if err != nil {
			res.Violate("reader-open-failed", "open with resurrected ancestor failed: %v [%s]", err, r.h)
			continue
		}
		if !rows.Equal(first) || !rows2.Equal(first) {
			res.Violate("ancestor-remerge-changes-rows:"+shape, "merging retired ancestor(s) %v again changes the rows: %v -> %v / %v [%s]", sub, first, rows, rows2, r.h)
		}
	}
	// read-write open records the merge; rows unchanged; a second one is quiescent
	z1 := r.w.NewClient("z1")
	if err := z1.Create(r.opts); err != nil {
		res.Violate("merge-open-failed", "read-write open failed: %v [%s]", err, r.h)
		return
	}
	r.trans++
	rows, err := z1.Query(selAll)
	if err != nil || !rows.Equal(first) {
		res.Violate("merge-commit-changes-rows:"+shape, "rows after the merging read-write open differ: %v -> %v (%v) [%s]", first, rows, err, r.h)
	}
	z1.Close()
	// every version object, merge versions included, is closed under reference and decodes
	{
		objs := r.w.B.Snapshot()
		cur, mer := engine.Versions(objs, l)
		for _, n := range append(cur, mer...) {
			vd, err := engine.WalkVersion(objs, l, n)
			if err != nil {
				res.Violate("version-undecodable", "%v [%s]", err, r.h)
			} else if len(vd.Missing) > 0 || len(vd.Tree.Problems) > 0 {
				res.Violate("merge-version-malformed", "version %s: missing %v problems %v [%s]", n, vd.Missing, vd.Tree.Problems, r.h)
			}
		}
	}
	keysBefore := strings.Join(r.w.B.Keys(""), "\n")
	mark := r.w.B.LogLen()
	z2 := r.w.NewClient("z2")
	if err := z2.Create(r.opts); err != nil {
		res.Violate("merge-open-failed", "second read-write open failed: %v [%s]", err, r.h)
		return
	}
	r.trans++
	rows, err = z2.Query(selAll)
	z2.Close()
	if err != nil || !rows.Equal(first) {
		res.Violate("reopen-changes-rows:"+shape, "rows after re-opening the quiescent table differ: %v -> %v (%v) [%s]", first, rows, err, r.h)
	}
	for _, rq := range r.w.B.LogSince(mark) {
		if rq.Mutating() {
			res.Violate("not-quiescent", "re-opening a quiescent table still writes: %s [%s]", rq.String(), r.h)
			break
		}
	}
	if strings.Join(r.w.B.Keys(""), "\n") != keysBefore {
		res.Violate("not-quiescent-objects", "re-opening a quiescent table changed the set of objects [%s]", r.h)
	}
}
