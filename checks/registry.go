// Package checks holds one exhaustive bounded check per property.
package checks

import "verif/engine"

// Check is the coordinator side of one property's check.
type Check struct {
	Level string
	Run   func(r *engine.Run) int
}

// All maps property id to its check.
var All = map[string]*Check{}

// seqs enumerates all sequences over {0..n-1} of length exactly depth, calling f with a reused slice.
func seqs(n, depth int, f func([]int)) {
	cur := make([]int, depth)
	stop := false
	var rec func(i int)
	rec = func(i int) {
		if stop {
			return
		}
		if i == depth {
			f(cur)
			// heartbeat for the watchdog; true = the run's budget is used up (the case is reported incomplete)
			stop = engine.Beat()
			return
		}
		for a := 0; a < n; a++ {
			cur[i] = a
			rec(i + 1)
		}
	}
	rec(0)
}

// perms enumerates all permutations of 0..n-1.
func perms(n int) [][]int {
	var out [][]int
	p := make([]int, n)
	for i := range p {
		p[i] = i
	}
	var rec func(k int)
	rec = func(k int) {
		if k == n {
			out = append(out, append([]int{}, p...))
			return
		}
		for i := k; i < n; i++ {
			p[k], p[i] = p[i], p[k]
			rec(k + 1)
			p[k], p[i] = p[i], p[k]
		}
	}
	rec(0)
	return out
}

func applyPerm(s []string, p []int) []string {
	if len(p) != len(s) {
		return s
	}
	out := make([]string, len(s))
	for i, j := range p {
		out[i] = s[j]
	}
	return out
}
