package checks

import (
	"bytes"
	"context"
	"encoding/gob"
	"encoding/json"
	"fmt"
	"sort"
	"strings"
	"time"

	"github.com/jrhy/mast"
	"github.com/jrhy/s3db/kv"
	crdtpub "github.com/jrhy/s3db/kv/crdt"

	"verif/engine"
)

// C17 — the key-value layer keeps its documented last-write and tombstone rules.
//
// All event sequences up to a depth over three kv handles on one fake bucket (Set, Tombstone,
// RemoveTombstones, Commit, re-Open with every permutation of the version list, Clone), with every
// assignment of distinct time ranks to the timed events, in three modes (default last-write-wins,
// conflict callback, custom merge = numeric max).  Reference model R-kv: a map per handle and per
// committed version.  Oracles: Get, cursor scan, Diff between every pair of committed versions,
// TraceHistory; the conflict callback fires exactly for the keys whose live values differ.

type kEvent struct {
	T    string `json:"t"` // set tomb commit reopen rt clone
	H    int    `json:"h"`
	K    int    `json:"k,omitempty"`
	Rank int    `json:"r,omitempty"`
	P    int    `json:"p,omitempty"`
}

func (e kEvent) String() string {
	switch e.T {
	case "set":
		return fmt.Sprintf("h%d.Set(k%d)@%d", e.H+1, e.K, e.Rank)
	case "tomb":
		return fmt.Sprintf("h%d.Tombstone(k%d)@%d", e.H+1, e.K, e.Rank)
	case "commit":
		return fmt.Sprintf("h%d.Commit", e.H+1)
	case "reopen":
		return fmt.Sprintf("h%d.reOpen(p%d)", e.H+1, e.P)
	case "rt":
		return fmt.Sprintf("h%d.RemoveTombstones(<%d)", e.H+1, e.Rank)
	case "clone":
		return fmt.Sprintf("h%d.Clone+Set(k%d)", e.H+1, e.K)
	}
	return "?"
}

type kCase struct {
	Mode  string   `json:"mode"` // lww | conflict | max
	Keys  int      `json:"keys"`
	First []kEvent `json:"first"`
	Depth int      `json:"depth"`
	Gob   bool     `json:"gob,omitempty"`
	// SameVal: every Set of a key writes the same value (different times), so merges meet equal values
	SameVal bool `json:"same_val,omitempty"`
	// Deep selects the reduced alphabet {Set, Tombstone(h1), Commit, re-Open} on 2 handles with times in
	// execution order, which reaches long version chains (TraceHistory, Diff over merges).
	Deep bool `json:"deep,omitempty"`
	// Min, when set, restricts the case to sequences of at least this length (shorter ones belong to another case).
	Min int `json:"min,omitempty"`
}

func init() {
	All["C17"] = &Check{Level: "model_checking", Run: c17Run}
	engine.RegisterWorker("c17", c17Worker)
}

func c17DeepAlphabet() []kEvent {
	var evs []kEvent
	for h := 0; h < 2; h++ {
		evs = append(evs, kEvent{T: "set", H: h, K: 1})
		evs = append(evs, kEvent{T: "commit", H: h})
		evs = append(evs, kEvent{T: "reopen", H: h})
	}
	evs = append(evs, kEvent{T: "tomb", H: 0, K: 1})
	return evs
}

func c17Alphabet(keys int) []kEvent {
	var evs []kEvent
	for h := 0; h < 3; h++ {
		for k := 1; k <= keys; k++ {
			evs = append(evs, kEvent{T: "set", H: h, K: k})
			evs = append(evs, kEvent{T: "tomb", H: h, K: k})
		}
		evs = append(evs, kEvent{T: "commit", H: h})
		evs = append(evs, kEvent{T: "reopen", H: h})
	}
	evs = append(evs, kEvent{T: "rt", H: 0})
	evs = append(evs, kEvent{T: "clone", H: 0, K: 1})
	return evs
}

func c17Run(r *engine.Run) int {
	depth, keys := 5, 1
	if r.Thorough() {
		depth = 6
	}
	r.Rule = "all sequences of length 1..depth over {Set, Tombstone, Commit, re-Open (all version-list permutations) on 3 handles; RemoveTombstones (every cutoff rank), Clone+Set on handle 1}, canonical handle order, every assignment of distinct time ranks to the timed events, modes {last-write-wins, conflict callback, custom max-merge}; thorough adds a second key at depth 5 and legacy gob root objects; non-trivial = a key written by two handles or a tombstone involved"
	r.Bounds["depth"] = depth
	r.Bounds["keys"] = keys
	r.Bounds["modes"] = []string{"lww", "conflict", "max"}
	r.Assumptions = []string{"distinct times (ties are order dependent by design)", "fake store with S3 consistency", "handles run sequentially"}
	if r.Thorough() {
		r.SetBudget(40 * 60 * 1e9)
	}
	var cases []json.RawMessage
	sameVal := false
	add := func(mode string, keys, depth int, gob bool) {
		alpha := c17Alphabet(keys)
		for _, a := range alpha {
			if a.H != 0 {
				continue // canonical: the first event is by handle 1
			}
			for _, b := range alpha {
				if b.H > 1 {
					continue
				}
				if depth < 5 {
					cases = append(cases, engine.J(kCase{Mode: mode, Keys: keys, First: []kEvent{a, b}, Depth: depth, Gob: gob, SameVal: sameVal}))
					continue
				}
				// deeper runs are sharded by three-event prefixes for an even load
				cases = append(cases, engine.J(kCase{Mode: mode, Keys: keys, First: []kEvent{a, b}, Depth: 2, Gob: gob, SameVal: sameVal}))
				for _, c3 := range alpha {
					cases = append(cases, engine.J(kCase{Mode: mode, Keys: keys, First: []kEvent{a, b, c3}, Depth: depth, Gob: gob, SameVal: sameVal}))
				}
			}
			cases = append(cases, engine.J(kCase{Mode: mode, Keys: keys, First: []kEvent{a}, Depth: 1, Gob: gob, SameVal: sameVal}))
		}
	}
	for _, mode := range []string{"lww", "conflict", "max"} {
		d := depth
		if !r.Thorough() && mode != "lww" {
			d = depth - 1 // quick: the two callback modes one level shallower
		}
		add(mode, keys, d, false)
	}
	if r.Thorough() {
		add("lww", 2, 5, false)
		add("lww", 1, 5, true)
	} else {
		add("lww", 1, 4, true)
	}
	// every Set of a key writes the same value: merges of equal values with different times (the entry must
	// still carry the latest time, or a stale third write wins later)
	sameVal = true
	for _, mode := range []string{"lww", "conflict"} {
		d := 4
		if r.Thorough() {
			d = 5
		}
		add(mode, keys, d, false)
	}
	sameVal = false
	r.Bounds["same_value_slice"] = "modes lww, conflict; depth 4 (quick) / 5 (thorough)"
	deepDepth := 7
	if r.Thorough() {
		deepDepth = 9
	}
	r.Bounds["deep_chain_depth"] = deepDepth
	da := c17DeepAlphabet()
	// thorough: every chain of up to deepDepth-1 events first (completes), then the chains of exactly deepDepth
	// events in finer shards, as far as the budget allows
	first := deepDepth
	if r.Thorough() {
		first = deepDepth - 1
	}
	for _, a := range da {
		if a.H != 0 {
			continue
		}
		for _, b := range da {
			for _, c3 := range da {
				cases = append(cases, engine.J(kCase{Mode: "lww", Keys: 1, First: []kEvent{a, b, c3}, Depth: first, Deep: true}))
			}
		}
	}
	if r.Thorough() {
		for _, a := range da {
			if a.H != 0 {
				continue
			}
			for _, b := range da {
				for _, c3 := range da {
					for _, c4 := range da {
						for _, c5 := range da {
							cases = append(cases, engine.J(kCase{Mode: "lww", Keys: 1, First: []kEvent{a, b, c3, c4, c5}, Depth: deepDepth, Min: deepDepth, Deep: true}))
						}
					}
				}
			}
		}
	}
	// the reduced deep-chain alphabet once more in conflict-callback mode with equal values: long enough to
	// commit the same value twice at different times on two handles and merge them in every version-list order
	sd := 6
	if r.Thorough() {
		sd = 8
	}
	for _, a := range da {
		if a.H != 0 {
			continue
		}
		for _, b := range da {
			for _, c3 := range da {
				cases = append(cases, engine.J(kCase{Mode: "conflict", Keys: 1, First: []kEvent{a, b, c3}, Depth: sd, Deep: true, SameVal: true}))
			}
		}
	}
	r.Bounds["same_value_chain_depth"] = sd
	n := 0
	r.MapBudget("c17", cases, func(i int, c json.RawMessage, res *engine.Result) {
		r.Add("c17", c, res)
		n++
		if n%41 == 1 && res.Data != nil {
			r.Sample(json.RawMessage(res.Data))
		}
	})
	return r.Vacuity(3, 100)
}

// ---- reference model -------------------------------------------------------------------------------

type kVal struct {
	Val  int
	Time int // rank
	Tomb int // 0 = none, else tombstone rank
}

type kState map[int]kVal

func (s kState) clone() kState {
	o := kState{}
	for k, v := range s {
		o[k] = v
	}
	return o
}

// lww is the documented rule for two entries of one key (new applied over old).
func lww(nw, old kVal) kVal {
	if nw.Tomb != 0 || old.Tomb != 0 {
		if nw.Tomb == 0 {
			return old
		}
		if old.Tomb == 0 {
			return nw
		}
		if nw.Tomb < old.Tomb {
			return nw
		}
		return old
	}
	if nw.Time >= old.Time {
		return nw
	}
	return old
}

func mergeStates(mode string, a, b kState, conflicts *[]int) kState {
	out := a.clone()
	for k, bv := range b {
		av, ok := out[k]
		if !ok {
			out[k] = bv
			continue
		}
		if av == bv {
			continue
		}
		if av.Tomb == 0 && bv.Tomb == 0 && av.Val != bv.Val && conflicts != nil {
			*conflicts = append(*conflicts, k)
		}
		if mode == "max" && av.Tomb == 0 && bv.Tomb == 0 {
			if bv.Val > av.Val {
				out[k] = bv
			}
			continue
		}
		out[k] = lww(bv, av)
	}
	return out
}

func (s kState) visible() map[int]int {
	m := map[int]int{}
	for k, v := range s {
		if v.Tomb == 0 {
			m[k] = v.Val
		}
	}
	return m
}

type kVersion struct {
	id    int
	name  string
	state kState
}

type kHandle struct {
	db      *kv.DB
	state   kState
	sources []int // model version ids this handle is based on
	dirty   bool
}

// ---- runner ----------------------------------------------------------------------------------------

func c17Worker(raw json.RawMessage) *engine.Result {
	var c kCase
	must(json.Unmarshal(raw, &c))
	res := &engine.Result{}
	alpha := c17Alphabet(c.Keys)
	if c.Deep {
		alpha = c17DeepAlphabet()
	}
	var sample interface{}
	for total := len(c.First); total <= c.Depth; total++ {
		if total < c.Min {
			continue
		}
		rest := total - len(c.First)
		seqs(len(alpha), rest, func(tailIdx []int) {
			evs := append([]kEvent{}, c.First...)
			for _, i := range tailIdx {
				evs = append(evs, alpha[i])
			}
			if !c17Canonical(evs) {
				return
			}
			// assign distinct ranks to the timed events (set, tomb): all permutations
			var timed []int
			for i, e := range evs {
				if e.T == "set" || e.T == "tomb" {
					timed = append(timed, i)
				}
			}
			rankSets := perms(len(timed))
			if len(timed) == 0 {
				rankSets = [][]int{{}}
			}
			if c.Deep {
				id := make([]int, len(timed))
				for i := range id {
					id[i] = i
				}
				rankSets = [][]int{id}
			}
			for _, rp := range rankSets {
				es := append([]kEvent{}, evs...)
				for j, idx := range timed {
					es[idx].Rank = rp[j] + 1
				}
				c17Expand(c, es, 0, len(timed), res, &sample)
			}
		})
		if len(c.First) == 1 {
			break
		}
	}
	if sample != nil {
		res.Data = engine.J(sample)
	}
	return res
}

// c17Canonical: handles appear in order h1, h2, h3; sequences must end in an observable way.
func c17Canonical(evs []kEvent) bool {
	used := 0
	for _, e := range evs {
		if e.H > used {
			return false
		}
		if e.H == used {
			used++
		}
	}
	return true
}

// c17Expand enumerates the dynamic parameters (permutation at reopen, cutoff of RemoveTombstones) and runs.
func c17Expand(c kCase, evs []kEvent, from int, nTimed int, res *engine.Result, sample *interface{}) {
	for i := from; i < len(evs); i++ {
		switch evs[i].T {
		case "reopen":
			for p := 0; p < 6; p++ {
				es := append([]kEvent{}, evs...)
				es[i].P = p
				if !c17Probe(c, es[:i+1]) {
					break
				}
				c17Expand(c, es, i+1, nTimed, res, sample)
			}
			return
		case "rt":
			for cut := 1; cut <= nTimed+1; cut++ {
				es := append([]kEvent{}, evs...)
				es[i].Rank = cut
				c17Expand(c, es, i+1, nTimed, res, sample)
			}
			return
		}
	}
	c17Exec(c, evs, res, sample, false)
}

// c17Probe reports whether the last event (a reopen with permutation P) is within range.
func c17Probe(c kCase, evs []kEvent) bool {
	scratch := &engine.Result{}
	var s interface{}
	return c17Exec(c, evs, scratch, &s, true)
}

func kT(rank int) time.Time { return engine.T(1000 + 10*rank) }

type kConflictLog struct{ keys []int }

func c17Config(mode string, log *kConflictLog) kv.Config {
	cfg := kv.Config{
		Storage:      &kv.S3BucketInfo{EndpointURL: "verif-kv", BucketName: "bk", Prefix: "kvdb"},
		KeysLike:     1,
		ValuesLike:   1,
		BranchFactor: 4,
	}
	switch mode {
	case "conflict":
		cfg.OnConflictMerged = func(key, v1, v2 interface{}) error {
			log.keys = append(log.keys, key.(int))
			return nil
		}
	case "max":
		cfg.CustomMerge = func(key interface{}, v1, v2 crdtpub.Value) crdtpub.Value {
			if v1.Tombstoned() || v2.Tombstoned() {
				return *crdtpub.LastWriteWins(&v1, &v2)
			}
			if v2.Value.(int) > v1.Value.(int) {
				return v2
			}
			return v1
		}
	}
	return cfg
}

func c17Exec(c kCase, evs []kEvent, res *engine.Result, sample *interface{}, probe bool) bool {
	ctx := context.Background()
	b := engine.NewBucket()
	s3h := b.Handle("kv")
	world := engine.NewWorldOn(b) // for the root-order hook
	defer world.Close()
	clog := &kConflictLog{}
	cfg := c17Config(c.Mode, clog)
	names := make([]string, len(evs))
	for i, e := range evs {
		names[i] = e.String()
	}
	where := fmt.Sprintf("mode=%s gob=%v [%s]", c.Mode, c.Gob, strings.Join(names, "; "))
	viol := func(class, f string, a ...interface{}) {
		if !probe {
			res.Violate(class+"|"+c.Mode, f+" "+where, a...)
		}
	}
	clock := 0
	when := func() time.Time { clock++; return engine.T(10 + clock) }
	var versions []*kVersion
	heads := map[int]bool{}
	committedVals := map[int]map[[2]int]bool{} // key -> {(time,val)} ever present in a committed version
	newVersion := func(name string, st kState) *kVersion {
		v := &kVersion{id: len(versions), name: name, state: st.clone()}
		versions = append(versions, v)
		heads[v.id] = true
		for k, e := range st {
			if e.Tomb == 0 {
				if committedVals[k] == nil {
					committedVals[k] = map[[2]int]bool{}
				}
				committedVals[k][[2]int{e.Time, e.Val}] = true
			}
		}
		return v
	}
	hs := make([]*kHandle, 3)
	var allDBs []*kv.DB
	defer func() {
		for _, d := range allDBs {
			d.Cancel() // the finalizer of a dirty, abandoned handle panics
		}
	}()
	open := func(h int, p int, first bool) bool {
		// model: merge all current heads in the permuted order of their names
		var hv []*kVersion
		for id := range heads {
			hv = append(hv, versions[id])
		}
		sort.Slice(hv, func(i, j int) bool { return hv[i].name < hv[j].name })
		if !first && p >= fact(len(hv)) {
			return false
		}
		ps := perms(len(hv))
		order := hv
		if p < len(ps) && len(hv) > 0 {
			order = make([]*kVersion, len(hv))
			for i, j := range ps[p] {
				order[i] = hv[j]
			}
		}
		world.RootOrder = func(s []string) []string {
			if p < len(perms(len(s))) {
				return applyPerm(s, perms(len(s))[p])
			}
			return s
		}
		clog.keys = nil
		db, err := kv.Open(ctx, s3h, cfg, kv.OpenOptions{}, when())
		world.RootOrder = nil
		if err != nil {
			viol("open-failed", "Open failed: %v", err)
			return false
		}
		allDBs = append(allDBs, db)
		st := kState{}
		var wantConf []int
		var src []int
		for i, v := range order {
			if i == 0 {
				st = v.state.clone()
			} else {
				st = mergeStates(c.Mode, st, v.state, &wantConf)
			}
			src = append(src, v.id)
		}
		if c.Mode == "conflict" {
			g, wnt := append([]int{}, clog.keys...), append([]int{}, wantConf...)
			sort.Ints(g)
			sort.Ints(wnt)
			if fmt.Sprint(g) != fmt.Sprint(wnt) {
				viol("conflict-callback", "OnConflictMerged was invoked for keys %v, the live values differ for keys %v", g, wnt)
			}
		}
		hd := &kHandle{db: db, state: st, sources: src}
		hs[h] = hd
		if len(src) > 1 {
			// a read-write open records the merge as a new version
			roots, _ := db.Roots()
			name := ""
			if len(roots) == 1 {
				name = roots[0]
			}
			for _, id := range src {
				delete(heads, id)
			}
			v := newVersion(name, st)
			hd.sources = []int{v.id}
		}
		return true
	}
	for h := 0; h < 3; h++ {
		if !open(h, 0, true) {
			return false
		}
	}
	nontrivial := false
	writers := map[int]map[int]bool{}
	for i, e := range evs {
		h := hs[e.H]
		switch e.T {
		case "set":
			val := 100 + i
			if c.SameVal {
				val = 100 + e.K
			}
			if err := h.db.Set(ctx, kT(e.Rank), e.K, val); err != nil {
				viol("set-failed", "%v", err)
				return false
			}
			nv := kVal{Val: val, Time: e.Rank}
			if old, ok := h.state[e.K]; ok {
				nv = lww(nv, old)
			}
			h.state[e.K] = nv
			h.dirty = true
			if writers[e.K] == nil {
				writers[e.K] = map[int]bool{}
			}
			writers[e.K][e.H] = true
			if len(writers[e.K]) > 1 {
				nontrivial = true
			}
		case "tomb":
			if err := h.db.Tombstone(ctx, kT(e.Rank), e.K); err != nil {
				viol("tombstone-failed", "%v", err)
				return false
			}
			nv := kVal{Time: e.Rank, Tomb: e.Rank}
			if old, ok := h.state[e.K]; ok {
				nv = lww(nv, old)
			}
			h.state[e.K] = nv
			h.dirty = true
			nontrivial = true
		case "commit":
			name, err := h.db.Commit(ctx)
			if err != nil {
				viol("commit-failed", "%v", err)
				return false
			}
			if h.dirty {
				for _, id := range h.sources {
					delete(heads, id)
				}
				n := ""
				if name != nil {
					n = *name
				}
				v := newVersion(n, h.state)
				h.sources = []int{v.id}
				h.dirty = false
			}
		case "reopen":
			if h.dirty {
				h.db.Cancel()
				// uncommitted changes are dropped by the re-open
			}
			if !open(e.H, e.P, false) {
				return false
			}
			if probe && i == len(evs)-1 {
				return true
			}
		case "rt":
			if err := h.db.RemoveTombstones(ctx, kT(e.Rank)); err != nil {
				viol("remove-tombstones-failed", "%v", err)
				return false
			}
			for k, v := range h.state {
				if v.Tomb != 0 && v.Tomb < e.Rank {
					delete(h.state, k)
					h.dirty = true
				}
			}
		case "clone":
			cl, err := h.db.Clone(ctx)
			if err != nil {
				viol("clone-failed", "%v", err)
				return false
			}
			if err := cl.Set(ctx, kT(90), e.K, 999); err != nil {
				viol("clone-set-failed", "%v", err)
			}
			var v int
			ok, _ := cl.Get(ctx, e.K, &v)
			exp := lww(kVal{Val: 999, Time: 90}, h.state[e.K])
			if _, had := h.state[e.K]; !had {
				exp = kVal{Val: 999, Time: 90}
			}
			if (exp.Tomb == 0) != ok || (ok && v != exp.Val) {
				viol("clone-get", "Get on the clone after Set gives (%v,%v), want %+v", v, ok, exp)
			}
			cl.Cancel()
			// the original must be unaffected: checked by the Get oracle below
		}
	}
	if probe {
		return true
	}
	res.Execs++
	res.Trans += len(evs)
	if nontrivial {
		res.NontrivN++
	}
	// ---- oracles ----
	for hi, h := range hs {
		vis := h.state.visible()
		for k := 1; k <= c.Keys; k++ {
			var v int
			ok, err := h.db.Get(ctx, k, &v)
			want, wok := vis[k]
			if err != nil || ok != wok || (ok && v != want) {
				viol("get", "h%d.Get(k%d) = (%v,%v,%v), model says (%v,%v); model state %+v", hi+1, k, v, ok, err, want, wok, h.state)
			}
			tomb, _ := h.db.IsTombstoned(ctx, k)
			if tomb != (h.state[k].Tomb != 0) {
				viol("is-tombstoned", "h%d.IsTombstoned(k%d) = %v, model state %+v", hi+1, k, tomb, h.state)
			}
		}
		// cursor scan
		cur, err := h.db.Cursor(ctx)
		if err == nil && h.db.Size() > 0 {
			err = cur.Min(ctx)
			got := map[int]int{}
			entries := 0
			for err == nil {
				k, v, ok := cur.Get()
				if !ok {
					break
				}
				entries++
				if !v.Tombstoned() {
					got[k.(int)] = v.Value.(int)
					if m, ok := h.state[k.(int)]; ok && m.Tomb == 0 && v.Value.(int) == m.Val && v.ModEpochNanos != kT(m.Time).UnixNano() {
						viol("value-time", "h%d: key %v = %v carries time %s, the latest Set of that value merged into this handle is rank %d (%s)", hi+1, k, v.Value, time.Unix(0, v.ModEpochNanos).UTC().Format("15:04:05"), m.Time, kT(m.Time).UTC().Format("15:04:05"))
					}
				} else if m, ok := h.state[k.(int)]; ok && m.Tomb != 0 && v.TombstoneSinceEpochNanos != kT(m.Tomb).UnixNano() {
					viol("tombstone-time", "h%d: key %v carries the tombstone of %s, the earliest tombstone merged is that of rank %d (%s)", hi+1, k, time.Unix(0, v.TombstoneSinceEpochNanos).UTC().Format("15:04:05"), m.Tomb, kT(m.Tomb).UTC().Format("15:04:05"))
				}
				err = cur.Forward(ctx)
			}
			if fmt.Sprint(got) != fmt.Sprint(vis) || entries != len(h.state) {
				viol("cursor-scan", "h%d cursor scan shows %v (%d entries), model %v (%d entries)", hi+1, got, entries, vis, len(h.state))
			}
		}
		if int(h.db.Size()) != len(h.state) {
			viol("size", "h%d.Size() = %d, model has %d entries (%+v)", hi+1, h.db.Size(), len(h.state), h.state)
		}
		// TraceHistory of every key
		for k := 1; k <= c.Keys; k++ {
			type hv struct {
				t time.Time
				v interface{}
			}
			var hist []hv
			err := h.db.TraceHistory(ctx, k, time.Time{}, func(when time.Time, value interface{}) (bool, error) {
				hist = append(hist, hv{when, value})
				return true, nil
			})
			if err != nil {
				viol("trace-history-failed", "h%d.TraceHistory(k%d): %v", hi+1, k, err)
				continue
			}
			cur, has := h.state[k]
			if has && len(hist) == 0 {
				viol("trace-history-empty", "h%d.TraceHistory(k%d) yields nothing although the key has an entry %+v", hi+1, k, cur)
			}
			for j, x := range hist {
				if j == 0 && has {
					if cur.Tomb == 0 && (x.v == nil || x.v.(int) != cur.Val) {
						viol("trace-history-start", "h%d.TraceHistory(k%d) starts with %v, the current value is %d", hi+1, k, x.v, cur.Val)
					}
				}
				if j > 0 && !x.t.Before(hist[j-1].t) {
					viol("trace-history-order", "h%d.TraceHistory(k%d) times are not strictly decreasing: %v then %v", hi+1, k, hist[j-1].t, x.t)
				}
				if x.v != nil && !(j == 0 && h.dirty) {
					rank := int(x.t.Sub(kT(0)) / (10 * time.Second))
					if !committedVals[k][[2]int{rank, x.v.(int)}] && !(j == 0) {
						viol("trace-history-uncommitted", "h%d.TraceHistory(k%d) yields %v@%d which was never committed for that key (committed: %v)", hi+1, k, x.v, rank, committedVals[k])
					}
				}
			}
		}
	}
	// Diff between every ordered pair of live handles (their trees as they are, uncommitted entries included)
	for ai, a := range hs {
		for bi, bh := range hs {
			if ai == bi {
				continue
			}
			got := map[int]string{}
			err := bh.db.Diff(ctx, a.db, func(key, myValue, fromValue interface{}) (bool, error) {
				got[key.(int)] = fmt.Sprintf("%v<-%v", myValue, fromValue)
				return true, nil
			})
			if err != nil {
				cls := "live-diff-failed"
				if a.db.Size() == 0 || bh.db.Size() == 0 {
					// one of the two trees is empty. A handle that never held an entry has no root node and diffs
					// fine; one whose last entry was removed keeps an empty root node in memory (also across its
					// Commit) and mast's diff trips over it (dependency; see KNOWN_FINDINGS)
					cls = "live-diff-failed:emptied-tree"
				}
				viol(cls, "h%d.Diff(h%d): %v", bi+1, ai+1, err)
				continue
			}
			want := map[int]string{}
			va, vb := a.state.visible(), bh.state.visible()
			for k := 1; k <= c.Keys; k++ {
				x, okx := va[k]
				y, oky := vb[k]
				if okx != oky || (okx && x != y) {
					var xs, ys interface{}
					if okx {
						xs = x
					}
					if oky {
						ys = y
					}
					want[k] = fmt.Sprintf("%v<-%v", ys, xs)
				}
			}
			if fmt.Sprint(got) != fmt.Sprint(want) {
				cls := "live-diff"
				if a.dirty || bh.dirty {
					cls = "live-diff:uncommitted"
				}
				viol(cls, "h%d.Diff(from h%d) reports %v, the visible values differ for %v (h%d %+v dirty=%v, h%d %+v dirty=%v)", bi+1, ai+1, got, want, ai+1, a.state, a.dirty, bi+1, bh.state, bh.dirty)
			}
		}
	}
	// Diff between every pair of committed versions
	opened := map[int]*kv.DB{}
	openV := func(v *kVersion) *kv.DB {
		if db, ok := opened[v.id]; ok {
			return db
		}
		if v.name == "" {
			return nil
		}
		db, err := kv.Open(ctx, s3h, cfg, kv.OpenOptions{ReadOnly: true, OnlyVersions: []string{v.name}}, when())
		if err != nil {
			viol("open-version-failed", "cannot open version %s: %v", v.name, err)
			return nil
		}
		opened[v.id] = db
		return db
	}
	for _, a := range versions {
		for _, bv := range versions {
			if a.id == bv.id || a.name == "" || bv.name == "" {
				continue
			}
			da, dbb := openV(a), openV(bv)
			if da == nil || dbb == nil {
				continue
			}
			got := map[int]string{}
			err := dbb.Diff(ctx, da, func(key, myValue, fromValue interface{}) (bool, error) {
				got[key.(int)] = fmt.Sprintf("%v<-%v", myValue, fromValue)
				return true, nil
			})
			if err != nil {
				viol("diff-failed", "Diff(%s <- %s): %v", bv.name, a.name, err)
				continue
			}
			want := map[int]string{}
			va, vb := a.state.visible(), bv.state.visible()
			for k := 1; k <= c.Keys; k++ {
				x, okx := va[k]
				y, oky := vb[k]
				if okx != oky || (okx && x != y) {
					var xs, ys interface{}
					if okx {
						xs = x
					}
					if oky {
						ys = y
					}
					want[k] = fmt.Sprintf("%v<-%v", ys, xs)
				}
			}
			if fmt.Sprint(got) != fmt.Sprint(want) {
				viol("diff", "Diff(to=%s, from=%s) reports %v, the visible values differ for %v (from %+v to %+v)", bv.name, a.name, got, want, a.state, bv.state)
			}
		}
	}
	if c.Gob && len(versions) > 0 {
		c17Gob(ctx, b, s3h, cfg, hs, viol, when)
	}
	if len(b.Broken) > 0 {
		viol("store-invariant", "%v", b.Broken)
	}
	final := []string{}
	for _, h := range hs {
		final = append(final, fmt.Sprint(h.state.visible()))
	}
	res.States = append(res.States, strings.Join(final, "|"))
	res.Outcomes = append(res.Outcomes, fmt.Sprintf("versions=%d", len(versions)))
	if *sample == nil && nontrivial && len(versions) >= 2 {
		*sample = map[string]interface{}{"mode": c.Mode, "events": names, "final_states": final}
	}
	return true
}

// gobRoot mirrors the legacy (kv_version 0) root object; gob matches fields by name.
type gobRoot struct {
	Root         mast.Root
	Created      *time.Time
	MergeSources []string
	MergeMode    int
	KVVersion    int
}

// c17Gob rewrites every version object as a legacy gob root and checks that a fresh handle reads the same
// state, and that a commit on top of it stays readable.
func c17Gob(ctx context.Context, b *engine.Bucket, s3h *engine.Handle, cfg kv.Config, hs []*kHandle, viol func(string, string, ...interface{}), when func() time.Time) {
	db0, err := kv.Open(ctx, s3h, cfg, kv.OpenOptions{ReadOnly: true}, when())
	if err != nil {
		viol("open-failed", "%v", err)
		return
	}
	want := dumpKV(ctx, db0)
	b2 := engine.NewBucketFrom(b.Snapshot())
	for _, k := range b2.Keys("kvdb/root/") {
		raw, _ := b2.Get(k)
		var rj engine.RootJSON
		if json.Unmarshal(raw, &rj) != nil {
			continue
		}
		g := gobRoot{Root: mast.Root{Link: rj.Link, Size: rj.Size, Height: rj.Height, BranchFactor: rj.BranchFactor, NodeFormat: rj.NodeFormat}, Created: rj.Created, MergeSources: rj.MergeSources, MergeMode: rj.MergeMode, KVVersion: 0}
		var buf bytes.Buffer
		if err := gob.NewEncoder(&buf).Encode(g); err != nil {
			panic(err)
		}
		b2.Put(k, buf.Bytes())
	}
	h2 := b2.Handle("kvgob")
	db, err := kv.Open(ctx, h2, cfg, kv.OpenOptions{}, when())
	if err != nil {
		viol("gob-open-failed", "opening a bucket whose version objects are legacy gob roots failed: %v", err)
		return
	}
	if got := dumpKV(ctx, db); got != want {
		viol("gob-state-differs", "state read from legacy gob roots %s differs from the JSON roots' %s", got, want)
	}
	if err := db.Set(ctx, kT(95), 1, 4242); err == nil {
		if _, err := db.Commit(ctx); err != nil {
			viol("gob-commit-failed", "%v", err)
			return
		}
		db2, err := kv.Open(ctx, h2, cfg, kv.OpenOptions{ReadOnly: true}, when())
		if err != nil {
			viol("gob-reopen-failed", "%v", err)
			return
		}
		var v int
		ok, _ := db2.Get(ctx, 1, &v)
		var w int
		wok, _ := db.Get(ctx, 1, &w)
		if ok != wok || v != w {
			viol("gob-commit-unreadable", "after a commit on a legacy-format tree a new handle reads (%v,%v), the writer has (%v,%v)", v, ok, w, wok)
		}
	}
}

func dumpKV(ctx context.Context, db *kv.DB) string {
	cur, err := db.Cursor(ctx)
	if err != nil || db.Size() == 0 {
		return "{}"
	}
	var parts []string
	err = cur.Min(ctx)
	for err == nil {
		k, v, ok := cur.Get()
		if !ok {
			break
		}
		parts = append(parts, fmt.Sprintf("%v=%v@%d/t%d", k, v.Value, v.ModEpochNanos, v.TombstoneSinceEpochNanos))
		err = cur.Forward(ctx)
	}
	return "{" + strings.Join(parts, " ") + "}"
}
