package checks

import (
	"encoding/json"
	"fmt"
	"strings"

	"verif/engine"
)

// C06 — a single-writer table behaves like the same table in plain SQLite.
// C16 — every committed version is complete and well-formed on its own (same state space, different oracle).
//
// Explicit-state search to closure over a finite key/value domain: a state is the pair (s3db table,
// native WITHOUT ROWID mirror on the same connection); transitions are single mutation statements;
// at every distinct state a fixed battery of SELECTs is compared between the two tables, on the
// long-lived connection and on a fresh connection that re-opens the table from the bucket.

type c06Cfg struct {
	Keys    []string `json:"keys"`   // key literals, ascending in SQLite order
	Consts  []string `json:"consts"` // extra constants for predicates
	Updates bool     `json:"updates"`
	EPN     int      `json:"epn"`
	Cache   int      `json:"cache"`
	NotNull bool     `json:"notnull,omitempty"` // declare b NOT NULL
	// SameTime runs every statement with one constant explicit write_time ("non-decreasing" includes equal).
	SameTime bool `json:"sametime,omitempty"`
	// KeyLast declares the key as the last column (columns='b, c, a primary key').
	KeyLast bool   `json:"keylast,omitempty"`
	Mode    string `json:"mode"` // c06 | c16
}

type c06Case struct {
	Cfg  c06Cfg `json:"cfg"`
	Path []int  `json:"path"`
}

type c06Mut struct {
	Name string
	SQL  string // %s = table name
}

func (c c06Cfg) id() string {
	return fmt.Sprintf("%s|n%d|u%v|e%d|c%d|nn%v|st%v|%s", c.Mode, len(c.Keys), c.Updates, c.EPN, c.Cache, c.NotNull, c.SameTime, c.Keys[0]) + fmt.Sprint(c.KeyLast)
}

func c06Muts(cfg c06Cfg) []c06Mut {
	var m []c06Mut
	n := len(cfg.Keys)
	for i, k := range cfg.Keys {
		m = append(m, c06Mut{"insert " + k, fmt.Sprintf("insert into %%s(a,b,c) values(%s,'v',%d)", k, i)})
	}
	for _, k := range cfg.Keys {
		m = append(m, c06Mut{"delete " + k, "delete from %s where a=" + k})
	}
	mid := cfg.Keys[n/2]
	m = append(m, c06Mut{"delete <=k1", "delete from %s where a<=" + cfg.Keys[1]})
	m = append(m, c06Mut{"delete >k[n-2]", "delete from %s where a>" + cfg.Keys[n-2]})
	// redundant bounds on one side, the inclusive one first: the row AT the constant must stay
	m = append(m, c06Mut{"delete >=k1 and >k1", "delete from %s where a>=" + cfg.Keys[1] + " and a>" + cfg.Keys[1]})
	m = append(m, c06Mut{"insert dup-tail", fmt.Sprintf("insert into %%s(a,b,c) values(%s,'v',%d),(%s,'v',0)", cfg.Keys[n-1], n-1, cfg.Keys[0])})
	m = append(m, c06Mut{"insert null key", "insert into %s(a,b,c) values(NULL,'v',0)"})
	m = append(m, c06Mut{"insert all", func() string {
		var vs []string
		for i, k := range cfg.Keys {
			vs = append(vs, fmt.Sprintf("(%s,'v',%d)", k, i))
		}
		return "insert into %s(a,b,c) values" + strings.Join(vs, ",")
	}()})
	if cfg.Updates {
		for _, k := range cfg.Keys {
			m = append(m, c06Mut{"update7 " + k, "update %s set b=7 where a=" + k})
		}
		m = append(m, c06Mut{"updnull >=mid", "update %s set b=NULL where a>=" + mid})
		m = append(m, c06Mut{"updv <mid", "update %s set b='v' where a<" + mid})
		m = append(m, c06Mut{"upd7 all", "update %s set b=7"})
		m = append(m, c06Mut{"upd7 <=mid and <mid", "update %s set b=7 where a<=" + mid + " and a<" + mid})
	}
	return m
}

type c06Query struct {
	SQL     string // %s = table
	Ordered bool
}

func c06Battery(cfg c06Cfg) []c06Query {
	var qs []c06Query
	consts := append(append([]string{}, cfg.Keys...), cfg.Consts...)
	orders := []struct {
		s       string
		ordered bool
	}{{"", false}, {" order by a", true}, {" order by a desc", true}}
	for _, op := range []string{"=", "<", "<=", ">", ">="} {
		for _, c := range consts {
			for _, o := range orders {
				qs = append(qs, c06Query{fmt.Sprintf("select a,b,c from %%s where a%s%s%s", op, c, o.s), o.ordered})
			}
		}
	}
	// two-sided ranges over a subset of constants
	sub := consts
	if len(sub) > 5 {
		sub = []string{consts[0], consts[len(cfg.Keys)/2], consts[len(cfg.Keys)-1]}
		sub = append(sub, cfg.Consts[:2]...)
	}
	for _, lo := range []string{">", ">="} {
		for _, hi := range []string{"<", "<="} {
			for _, c1 := range sub {
				for _, c2 := range sub {
					qs = append(qs, c06Query{fmt.Sprintf("select a from %%s where a%s%s and a%s%s order by a", lo, c1, hi, c2), true})
					qs = append(qs, c06Query{fmt.Sprintf("select a from %%s where a%s%s and a%s%s order by a desc", lo, c1, hi, c2), true})
				}
			}
		}
	}
	// two bounds on the SAME side, every combination of strictness, both orders, equal and different constants
	sub3 := sub
	if len(sub3) > 3 {
		sub3 = []string{sub[0], sub[1], sub[len(sub)-1]}
	}
	for _, side := range [][]string{{">", ">="}, {"<", "<="}} {
		for _, o1 := range side {
			for _, o2 := range side {
				for _, c1 := range sub3 {
					for _, c2 := range sub3 {
						qs = append(qs, c06Query{fmt.Sprintf("select a from %%s where a%s%s and a%s%s order by a", o1, c1, o2, c2), true})
					}
				}
			}
		}
	}
	// IN lists (one xFilter call per element on the same cursor) combined with a bound, in both orders
	{
		kk := cfg.Keys
		lists := []string{kk[0] + "," + kk[len(kk)-1], kk[0] + "," + kk[len(kk)/2] + "," + kk[len(kk)-1]}
		for _, l := range lists {
			for _, op := range []string{"<", "<=", ">", ">="} {
				for _, c := range sub {
					qs = append(qs, c06Query{fmt.Sprintf("select a from %%s where a in (%s) and a%s%s order by a", l, op, c), true})
					qs = append(qs, c06Query{fmt.Sprintf("select a from %%s where a%s%s and a in (%s) order by a", op, c, l), true})
				}
			}
		}
		// the table as the inner side of a join / in a correlated subquery, driven by a list of constants
		var dv []string
		for _, c := range sub {
			dv = append(dv, "select "+c+" as a")
		}
		driver := strings.Join(dv, " union all ")
		for _, op := range []string{"<", "<=", ">", ">="} {
			for _, c := range sub {
				qs = append(qs, c06Query{fmt.Sprintf("select d.a, t.a from (%s) d cross join %%s t on t.a=d.a where t.a%s%s order by d.a", driver, op, c), true})
				qs = append(qs, c06Query{fmt.Sprintf("select d.a, (select count(*) from %%s t where t.a=d.a and t.a%s%s) from (%s) d order by d.a", op, c, driver), true})
			}
		}
	}
	k := cfg.Keys
	n := len(k)
	extra := []c06Query{
		{"select a,b,c from %s", false},
		{"select a,b,c from %s order by a", true},
		{"select a,b,c from %s order by a desc", true},
		{"select a from %s order by a limit 1", true},
		{"select a from %s order by a desc limit 1", true},
		{"select a from %s order by a limit 2", true},
		{"select a from %s order by a desc limit 2", true},
		{"select a from %s order by a limit 2 offset 1", true},
		{"select a from %s where a>" + k[0] + " order by a limit 1", true},
		{"select a from %s where a<" + k[n-1] + " order by a desc limit 1", true},
		{"select a from %s where a>=" + k[1] + " order by a desc limit 2", true},
		{"select count(*), min(a), max(a), count(b), min(b), max(b), total(c) from %s", true},
		{"select count(*) from %s where a>" + k[0], true},
		{"select max(a) from %s where a<" + k[n-1], true},
		{"select min(a) from %s where a>" + k[0], true},
		{"select a,b from %s order by b, a", true},
		{"select a,b from %s order by b desc, a desc", true},
		{"select a from %s where a in (" + k[0] + "," + k[n-1] + ") order by a", true},
		{"select a from %s where a in (" + k[n-1] + "," + k[1] + "," + cfg.Consts[0] + ") order by a desc", true},
		{"select a from %s where a in (" + k[0] + "," + k[1] + ")", false},
		{"select a from %s where a=" + k[0] + " or a=" + k[n-1] + " order by a", true},
		{"select a from %s where a=" + k[0] + " and a=" + k[1], false},
		{"select a from %s where a>" + k[n-1] + " and a<" + k[0], false},
		{"select a from %s where a between " + k[1] + " and " + k[n-1] + " order by a", true},
		{"select a from %s where a between " + k[n-1] + " and " + k[0], false},
		{"select a from %s where a not between " + k[1] + " and " + k[n-2] + " order by a desc", true},
		{"select a from %s where a is null", false},
		{"select a from %s where a is not null order by a", true},
		{"select a from %s where a=NULL", false},
		{"select a from %s where a>NULL", false},
		{"select a from %s where a<=NULL order by a desc", true},
		{"select a from %s where a in (NULL," + k[0] + ") order by a", true},
		{"select a from %s where a>=" + k[0] + " and b is not null order by a desc", true},
		{"select a from %s where b=7 order by a", true},
		{"select a from %s where b is null and a<=" + k[n-1] + " order by a", true},
		{"select a, typeof(a), typeof(b) from %s order by a", true},
		{"select t1.a, t2.a from %s t1 join %s t2 on t2.a=t1.a order by t1.a", true},
		{"select a from %s where a=(select min(a) from %s)", false},
		{"select a from %s where a>=" + k[0] + " and a>=" + k[1] + " order by a", true},
		{"select a from %s where a<=" + k[n-1] + " and a<" + k[n-2] + " order by a desc", true},
		{"select exists(select 1 from %s where a=" + k[n/2] + ")", true},
	}
	return append(qs, extra...)
}

func init() {
	All["C06"] = &Check{Level: "model_checking", Run: func(r *engine.Run) int { return c06Run(r, "c06") }}
	engine.RegisterWorker("c06", c06Worker)
}

func intKeys(n int) []string {
	var k []string
	for i := 1; i <= n; i++ {
		k = append(k, fmt.Sprint(i))
	}
	return k
}

func c06Cfgs(thorough bool, mode string) []c06Cfg {
	var cfgs []c06Cfg
	type ec struct{ epn, cache int }
	if !thorough {
		for _, e := range []ec{{2, 0}, {2, 100}, {3, 0}, {4096, 0}} {
			cfgs = append(cfgs, c06Cfg{Keys: intKeys(4), Consts: []string{"0", "5", "2.5", "'x'"}, Updates: true, EPN: e.epn, Cache: e.cache, Mode: mode})
		}
		cfgs = append(cfgs, c06Cfg{Keys: []string{"-1", "2", "2.5", "'a'", "'b'", "x'00'"}, Consts: []string{"-5", "2.2", "'aa'", "x''", "x'01'"}, EPN: 2, Mode: mode})
		cfgs = append(cfgs, c06Cfg{Keys: intKeys(4), Consts: []string{"0", "5", "2.5", "'x'"}, Updates: true, EPN: 2, NotNull: true, Mode: mode})
		cfgs = append(cfgs, c06Cfg{Keys: intKeys(4), Consts: []string{"0", "5", "2.5", "'x'"}, Updates: true, EPN: 2, SameTime: true, Mode: mode})
		cfgs = append(cfgs, c06Cfg{Keys: intKeys(3), Consts: []string{"0", "4", "2.5", "'x'"}, Updates: true, EPN: 2, KeyLast: true, Mode: mode})
		return cfgs
	}
	for _, e := range []ec{{2, 0}, {2, 100}, {3, 0}, {4, 0}, {4, 100}, {4096, 0}, {4096, 100}} {
		cfgs = append(cfgs, c06Cfg{Keys: intKeys(5), Consts: []string{"0", "6", "2.5", "'x'"}, Updates: true, EPN: e.epn, Cache: e.cache, Mode: mode})
	}
	cfgs = append(cfgs, c06Cfg{Keys: intKeys(5), Consts: []string{"0", "6", "2.5", "'x'"}, Updates: true, EPN: 2, NotNull: true, Mode: mode})
	cfgs = append(cfgs, c06Cfg{Keys: intKeys(5), Consts: []string{"0", "6", "2.5", "'x'"}, Updates: true, EPN: 4096, Cache: 100, NotNull: true, Mode: mode})
	cfgs = append(cfgs, c06Cfg{Keys: intKeys(4), Consts: []string{"0", "5", "2.5", "'x'"}, Updates: true, EPN: 2, KeyLast: true, Mode: mode})
	cfgs = append(cfgs, c06Cfg{Keys: intKeys(4), Consts: []string{"0", "5", "2.5", "'x'"}, Updates: true, EPN: 4096, Cache: 100, KeyLast: true, Mode: mode})
	cfgs = append(cfgs, c06Cfg{Keys: intKeys(5), Consts: []string{"0", "6", "2.5", "'x'"}, Updates: true, EPN: 2, SameTime: true, Mode: mode})
	cfgs = append(cfgs, c06Cfg{Keys: intKeys(5), Consts: []string{"0", "6", "2.5", "'x'"}, Updates: true, EPN: 4096, SameTime: true, Mode: mode})
	for _, e := range []ec{{2, 0}, {3, 0}} {
		cfgs = append(cfgs, c06Cfg{Keys: []string{"0", "1", "2", "3", "4", "5", "6", "7", "8"}, Consts: []string{"-1", "9", "3.5", "'x'"}, EPN: e.epn, Cache: e.cache, Mode: mode})
	}
	for _, e := range []ec{{2, 0}, {3, 100}, {4096, 0}} {
		cfgs = append(cfgs, c06Cfg{Keys: []string{"-1", "2", "2.5", "'a'", "'b'", "x'00'"}, Consts: []string{"-5", "2.2", "'aa'", "x''", "x'01'"}, Updates: true, EPN: e.epn, Cache: e.cache, Mode: mode})
	}
	return cfgs
}

func c06Run(r *engine.Run, mode string) int {
	cfgs := c06Cfgs(r.Thorough(), mode)
	r.Rule = "explicit-state search to closure: states = (s3db table, native WITHOUT ROWID mirror) over a finite key/value domain, transitions = single INSERT/UPDATE/DELETE statements (incl. range, multi-row-with-failing-row, NULL key); a state is non-trivial when the table is non-empty"
	r.Bounds["configs"] = cfgs
	r.Bounds["battery_size"] = len(c06Battery(cfgs[0]))
	r.Bounds["mutations"] = len(c06Muts(cfgs[0]))
	r.Assumptions = []string{"strictly increasing write times (logical clock)", "typeless columns (README: affinity is not applied)", "UPDATEs that change the key and OR IGNORE/REPLACE are outside the property"}
	var roots []json.RawMessage
	for _, c := range cfgs {
		roots = append(roots, engine.J(c06Case{Cfg: c, Path: []int{}}))
	}
	if r.Thorough() {
		r.SetBudget(40 * 60 * 1e9)
	} else {
		r.SetBudget(8 * 60 * 1e9)
	}
	n := 0
	closure := r.BFS(mode, roots, -1, func(c json.RawMessage, res *engine.Result) {
		n++
		if n%397 == 1 && res.Data != nil {
			r.Sample(json.RawMessage(res.Data))
		}
	})
	if mode == "c06" {
		// tables without a primary key (hidden random row id): all statement sequences, compared as multisets
		engine.Map("c06nokey", c06nkCases(r.Thorough()), func(i int, c json.RawMessage, res *engine.Result) {
			r.Add("c06nokey", c, res)
		})
		r.Bounds["no_primary_key_sequences_depth"] = map[bool]int{false: 4, true: 5}[r.Thorough()]
	}
	r.Extra["closure"] = closure
	if !closure {
		r.Exhaustive = false
	}
	return r.Vacuity(5, 50)
}

type c06World struct {
	cols string
	w    *engine.World
	c    *engine.Client
	cfg  c06Cfg
	t    int
}

func c06Open(cfg c06Cfg) (*c06World, error) {
	w := engine.NewWorld()
	w.SetClock(engine.T(1000))
	c := w.NewClient("w1")
	cols := "a primary key, b, c"
	ncols := "a primary key, b, c"
	if cfg.NotNull {
		cols = "a primary key, b not null, c"
		ncols = cols
	}
	if cfg.KeyLast {
		cols = "b, c, a primary key"
		ncols = cols
	}
	if err := c.Create(engine.TableOpts{Columns: cols, EPN: cfg.EPN, Cache: cfg.Cache}); err != nil {
		w.Close()
		return nil, err
	}
	if err := c.Exec("create table nat(" + ncols + ") without rowid"); err != nil {
		panic(err)
	}
	if cfg.SameTime {
		must(c.SetWriteTime(engine.T(1500)))
	}
	return &c06World{w: w, c: c, cfg: cfg, t: 1000, cols: cols}, nil
}

// apply runs one mutation on both tables and compares the outcome class and affected-row count.
func (x *c06World) apply(res *engine.Result, m c06Mut, where string) {
	x.t += 10
	x.w.SetClock(engine.T(x.t))
	na, nerr := x.c.Affected(fmt.Sprintf(m.SQL, "nat"))
	sa, serr := x.c.Affected(fmt.Sprintf(m.SQL, "{T}"))
	res.Trans++
	nc, sc := engine.ErrClass(nerr), engine.ErrClass(serr)
	kind := strings.Fields(m.Name)[0]
	if nc != sc {
		res.Violate("outcome:"+kind+":native="+nc+":s3db="+sc, "statement %q: native outcome %s (%v), s3db outcome %s (%v) [%s]", m.Name, nc, nerr, sc, serr, where)
	} else if nerr == nil && na != sa {
		res.Violate("affected:"+kind, "statement %q: native changed %d rows, s3db %d [%s]", m.Name, na, sa, where)
	}
}

func (x *c06World) key() (string, error) {
	d, err := engine.LiveDump(x.c.Tab)
	if err != nil {
		return "", err
	}
	return x.cfg.id() + "#" + d.Canon(false), nil
}

func c06Compare(res *engine.Result, cl *engine.Client, table string, qs []c06Query, native []engine.Rows, nerrs []string, conn, where string) {
	for i, q := range qs {
		got, err := cl.Query(strings.ReplaceAll(q.SQL, "%s", table))
		want := native[i]
		qclass := c06QueryClass(q.SQL)
		if (err != nil) != (nerrs[i] != "") {
			res.Violate("query-error:"+qclass, "[%s] %s: native err=%q s3db err=%v [%s]", conn, q.SQL, nerrs[i], err, where)
			continue
		}
		if err != nil {
			continue
		}
		if !q.Ordered {
			got, want = got.Sorted(), want.Sorted()
		}
		if !got.Equal(want) {
			res.Violate("query-result:"+qclass, "[%s] %s: native=%v s3db=%v [%s]", conn, q.SQL, want, got, where)
		}
	}
}

// c06QueryClass abstracts a query to its shape (operators, ordering, limit) for the class key.
func c06QueryClass(q string) string {
	var f []string
	lq := strings.ToLower(q)
	for _, op := range []string{"<=", ">=", "<", ">", "=", " in ", "between", "is null", "is not null", " or ", "join", "null"} {
		if strings.Contains(lq, op) {
			f = append(f, strings.TrimSpace(op))
			if op == "<=" || op == ">=" {
				lq = strings.ReplaceAll(lq, op, "")
			}
		}
	}
	if strings.Contains(lq, "order by a desc") {
		f = append(f, "desc")
	} else if strings.Contains(lq, "order by a") {
		f = append(f, "asc")
	} else if strings.Contains(lq, "order by b") {
		f = append(f, "orderb")
	}
	if strings.Contains(lq, "limit") {
		f = append(f, "limit")
	}
	for _, ag := range []string{"count(", "min(", "max("} {
		if strings.Contains(lq, ag) {
			f = append(f, "agg")
			break
		}
	}
	return strings.Join(f, ",")
}

func c06Worker(raw json.RawMessage) *engine.Result {
	var cs c06Case
	must(json.Unmarshal(raw, &cs))
	res := &engine.Result{}
	muts := c06Muts(cs.Cfg)
	pathNames := func(p []int) []string {
		var s []string
		for _, i := range p {
			s = append(s, muts[i].Name)
		}
		return s
	}
	where := fmt.Sprintf("epn=%d cache=%d path=%v", cs.Cfg.EPN, cs.Cfg.Cache, pathNames(cs.Path))
	defer func() {
		// class keys carry the configuration features a finding may depend on
		feat := ""
		if cs.Cfg.Cache > 0 {
			feat += "|cache>0"
		}
		if cs.Cfg.NotNull {
			feat += "|notnull"
		}
		if cs.Cfg.SameTime {
			feat += "|equal-write-times"
		}
		if cs.Cfg.KeyLast {
			feat += "|key-not-first"
		}
		for i := range res.Viol {
			res.Viol[i].Class += feat
		}
	}()
	x, err := c06Open(cs.Cfg)
	if err != nil {
		res.Violate("open-failed", "create failed: %v", err)
		return res
	}
	for _, i := range cs.Path {
		x.apply(res, muts[i], where)
	}
	k, err := x.key()
	if err != nil {
		res.Violate("live-dump-failed", "cannot scan own table: %v [%s]", err, where)
		x.w.Close()
		return res
	}
	res.Key = k
	// battery at this state
	qs := c06Battery(cs.Cfg)
	native := make([]engine.Rows, len(qs))
	nerrs := make([]string, len(qs))
	for i, q := range qs {
		rows, err := x.c.Query(strings.ReplaceAll(q.SQL, "%s", "nat"))
		native[i] = rows
		if err != nil {
			nerrs[i] = err.Error()
		}
	}
	nrows, _ := x.c.Query("select count(*) from nat")
	res.Nontrivial = len(nrows) == 1 && nrows[0] != "i0"
	res.Outcome = nrows[0]
	c06Compare(res, x.c, "{T}", qs, native, nerrs, "live", where)
	res.Trans += len(qs)
	// fresh connection re-opening the table from the bucket alone
	f := x.w.NewClient("fresh")
	if err := f.Create(engine.TableOpts{Columns: x.cols, EPN: cs.Cfg.EPN, Cache: cs.Cfg.Cache}); err != nil {
		res.Violate("reopen-failed", "fresh connection cannot open the table: %v [%s]", err, where)
	} else {
		c06Compare(res, f, "{T}", qs, native, nerrs, "fresh", where)
		res.Trans += len(qs)
	}
	f.Close()
	if len(x.w.B.Broken) > 0 {
		res.Violate("store-invariant", "%v [%s]", x.w.B.Broken, where)
	}
	x.w.Close()
	res.Data = engine.J(map[string]interface{}{"epn": cs.Cfg.EPN, "cache": cs.Cfg.Cache, "keys": cs.Cfg.Keys, "path": pathNames(cs.Path), "rows": native[1]})
	// successors: every mutation applied from this state (fresh replay of the path, since live objects cannot be cloned)
	for mi, m := range muts {
		y, err := c06Open(cs.Cfg)
		if err != nil {
			continue
		}
		scratch := &engine.Result{}
		for _, i := range cs.Path {
			y.apply(scratch, muts[i], where)
		}
		w2 := fmt.Sprintf("epn=%d cache=%d path=%v", cs.Cfg.EPN, cs.Cfg.Cache, pathNames(append(append([]int{}, cs.Path...), mi)))
		y.apply(res, m, w2)
		// full-content comparison right after the transition
		nat, _ := y.c.Query("select a,b,c from nat order by a")
		got, gerr := y.c.Query("select a,b,c from {T} order by a")
		if gerr != nil || !got.Equal(nat) {
			res.Violate("content-after:"+strings.Fields(m.Name)[0], "after %q: native=%v s3db=%v err=%v [%s]", m.Name, nat, got, gerr, w2)
		}
		nk, kerr := y.key()
		y.w.Close()
		if kerr != nil {
			res.Violate("live-dump-failed", "cannot scan own table: %v [%s]", kerr, w2)
			continue
		}
		np := append(append([]int{}, cs.Path...), mi)
		res.Next = append(res.Next, engine.J(engine.BFSNext{Key: nk, Case: engine.J(c06Case{Cfg: cs.Cfg, Path: np})}))
	}
	return res
}
