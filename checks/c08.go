package checks

import (
	"encoding/json"
	"fmt"
	"os"
	"strings"

	"verif/engine"
)

// C08 — stored values come back unchanged in value and storage class.
//
// Every value of a boundary alphabet (all storage classes, long values, embedded NUL, invalid UTF-8)
// in key / non-key position, observed at every stage: inside the writing transaction, after commit,
// from a fresh connection, after a merge with a second writer (unrelated row, and a conflicting older
// insert that must lose), after vacuum. Oracle: a native table given the same statements.

type c08Case struct {
	I   int    `json:"i"`
	Pos string `json:"pos"` // key | col
	EPN int    `json:"epn"`
	Th  bool   `json:"th,omitempty"`
}

// c08Val is a value given either as a bound parameter or as an SQL expression.
type c08Val struct {
	Name string
	V    *val
	Expr string
}

func c08Values(thorough bool) []c08Val {
	var out []c08Val
	for _, v := range c07Alphabet(thorough) {
		v := v
		out = append(out, c08Val{Name: v.String(), V: &v})
	}
	n := vNull()
	out = append(out, c08Val{Name: "NULL", V: &n})
	long := strings.Repeat("0123456789abcdef", 64) // 1 KiB
	vl := vText(long)
	out = append(out, c08Val{Name: "text-1KiB", V: &vl})
	vh := vText(strings.Repeat(long, 70))
	out = append(out, c08Val{Name: "text-70KiB", V: &vh})
	bl := vBlob([]byte(strings.Repeat("\x00\xff\x80a", 256)))
	out = append(out, c08Val{Name: "blob-1KiB", V: &bl})
	bh := vBlob([]byte(strings.Repeat("\x00\xff\x80a", 256*70)))
	out = append(out, c08Val{Name: "blob-70KiB", V: &bh})
	nul := vText("a\x00b")
	out = append(out, c08Val{Name: "text-embedded-NUL", V: &nul})
	out = append(out, c08Val{Name: "text-invalid-utf8", Expr: "CAST(x'ff' AS TEXT)"})
	out = append(out, c08Val{Name: "text-invalid-utf8-mid", Expr: "CAST(x'61ff62' AS TEXT)"})
	out = append(out, c08Val{Name: "zeroblob-5", Expr: "zeroblob(5)"})
	out = append(out, c08Val{Name: "real-1e308*10", Expr: "1e308*10"})
	out = append(out, c08Val{Name: "int-expr-overflow-to-real", Expr: "9223372036854775807+1"})
	return out
}

func init() {
	All["C08"] = &Check{Level: "exploration", Run: c08Run}
	engine.RegisterWorker("c08", c08Worker)
	engine.RegisterWorker("c08-overwrite", c08OverwriteWorker)
}

func c08Run(r *engine.Run) int {
	vals := c08Values(r.Thorough())
	epns := []int{2, 4096}
	if r.Thorough() {
		epns = []int{2, 3, 4096}
	}
	r.Rule = fmt.Sprintf("%d values (boundary alphabet of all storage classes + NULL, 1 KiB / 70 KiB text and blob, embedded NUL, invalid UTF-8, expression-produced values) x position {key, non-key} x entries_per_node %v; each case observes the value at 8 stages (in transaction, after commit, fresh connection, after merge with unrelated row, after merge with a losing conflicting insert, after vacuum, fresh after vacuum, unmentioned column) against a native table; plus, in the non-key column, every ORDERED PAIR (previous value, new value): INSERT the previous one, commit, UPDATE the column to the new one, observed in the transaction, after commit and from a fresh connection; non-trivial unless the value is NULL", len(vals), epns)
	r.Bounds["values"] = len(vals)
	r.Bounds["entries_per_node"] = epns
	r.Assumptions = []string{"values outside the alphabet are not covered", "NaN cannot be bound (SQLite turns it into NULL before the extension sees it)"}
	var cases []json.RawMessage
	for i := range vals {
		for _, pos := range []string{"key", "col"} {
			for _, epn := range epns {
				cases = append(cases, engine.J(c08Case{I: i, Pos: pos, EPN: epn, Th: r.Thorough()}))
			}
		}
	}
	n := 0
	engine.Map("c08", cases, func(i int, c json.RawMessage, res *engine.Result) {
		r.Add("c08", c, res)
		n++
		if res.Data != nil && n%37 == 1 {
			r.Sample(json.RawMessage(res.Data))
		}
	})
	// overwrite stage: every ordered pair (previous value, new value) in the non-key column
	var ocases []json.RawMessage
	for i := range vals {
		for _, epn := range epns {
			ocases = append(ocases, engine.J(c08Case{I: i, Pos: "col", EPN: epn, Th: r.Thorough()}))
		}
	}
	r.Bounds["overwrite_pairs"] = len(vals) * len(vals)
	engine.Map("c08-overwrite", ocases, func(i int, c json.RawMessage, res *engine.Result) {
		r.Add("c08-overwrite", c, res)
		if res.Data != nil && i%29 == 0 {
			r.Sample(json.RawMessage(res.Data))
		}
	})
	return r.Vacuity(2, 50)
}

func c08Worker(raw json.RawMessage) (res *engine.Result) {
	var c c08Case
	must(json.Unmarshal(raw, &c))
	res = &engine.Result{Execs: 1}
	v := c08Values(c.Th)[c.I]
	where := fmt.Sprintf("value=%s pos=%s epn=%d", v.Name, c.Pos, c.EPN)
	vclass := v.Name
	if v.V != nil && len(v.Name) > 24 {
		vclass = v.V.T + "-long"
	} else if v.V != nil {
		vclass = v.V.T
		if v.V.T == "t" && v.V.S == "" {
			vclass = "empty-text"
		}
	}
	viol := func(stage, f string, a ...interface{}) {
		class := "value-altered:" + vclass + ":" + c.Pos + ":" + stage
		if vclass == "empty-text" {
			class = "empty-text-reads-null:" + c.Pos // one root cause at every stage (see KNOWN_FINDINGS)
		}
		res.Violate(class, "[%s] "+f+" ["+where+"]", append([]interface{}{stage}, a...)...)
	}
	defer func() {
		if p := recover(); p != nil {
			res.Violate("go-panic:"+engine.NormalizePanic(fmt.Sprint(p)), "panic: %v [%s]", p, where)
			engine.Poisoned, res.Poisoned = true, true
		}
	}()

	w := engine.NewWorld()
	defer w.Close()
	w.SetClock(engine.T(1000))
	opts := engine.TableOpts{Columns: "a primary key, b, c", EPN: c.EPN}
	w1 := w.NewClient("w1")
	must(w1.Create(opts))
	w2 := w.NewClient("w2") // opened before w1 writes: its versions do not descend from w1's
	must(w2.Create(opts))
	must(w1.Exec("create table nat(a primary key, b, c) without rowid"))
	// prefill so that epn=2 gives a multi-level tree
	must(w1.Exec("begin"))
	for i := 0; i < 9; i++ {
		k := fmt.Sprintf("p%02d", i)
		must(w1.Exec("insert into nat values(?,?,?)", k, i, nil))
		must(w1.Exec("insert into {T} values(?,?,?)", k, i, nil))
	}
	must(w1.Exec("commit"))

	// the statement under test
	ph := "?"
	var args []interface{}
	if v.V != nil {
		args = []interface{}{v.V.Go()}
	} else {
		ph = v.Expr
	}
	var ins string
	if c.Pos == "key" {
		ins = "insert into %s(a,b) values(" + ph + ",'x')"
	} else {
		ins = "insert into %s(a,b) values('k1'," + ph + ")"
	}
	sel := "select typeof(a), a, typeof(b), b, typeof(c), c from %s order by a"
	cmp := func(cl *engine.Client, stage string) bool {
		if os.Getenv("VERIF_DEBUG") != "" {
			fmt.Fprintf(os.Stderr, "DEBUG stage=%s bucket=%s keys=%d\n", stage, w.B.Hash(), len(w.B.Keys("")))
		}
		want, _ := w1.Query(fmt.Sprintf(sel, "nat"))
		got, err := cl.Query(fmt.Sprintf(sel, "{T}"))
		res.Trans++
		if err != nil {
			viol(stage, "select failed: %v", err)
			return false
		}
		if !got.Equal(want) {
			viol(stage, "%s", clip(engine.Diff(want, got), 600))
			return false
		}
		return true
	}
	w.SetClock(engine.T(1100))
	must(w1.Exec("begin"))
	nerr := w1.Exec(fmt.Sprintf(ins, "nat"), args...)
	serr := w1.Exec(fmt.Sprintf(ins, "{T}"), args...)
	res.Trans++
	refused := false
	if nerr != nil && serr != nil {
		// both refuse (NULL key): fine, table must be as before
		w1.Exec("rollback")
		refused = true
	} else if nerr != nil && serr == nil {
		viol("insert", "native refused (%v) but s3db accepted", nerr)
		w1.Exec("rollback")
		return res
	} else if serr != nil {
		// s3db refuses what native accepts: allowed by the property ("refused with an error, never altered");
		// native must then be rolled back too
		w1.Exec("rollback")
		refused = true
		res.Outcome = "refused-at-insert"
	} else {
		cmp(w1, "in-transaction")
		cerr := w1.Exec("commit")
		if cerr != nil {
			// refused at commit: both tables roll back (native is in the same SQLite transaction)
			refused = true
			res.Outcome = "refused-at-commit"
			w1.Exec("rollback")
		}
	}
	if refused {
		if res.Outcome == "" {
			res.Outcome = "refused-both"
		}
		if !cmp(w1, "after-refusal") {
			return res
		}
		f := w.NewClient("fresh")
		if err := f.Create(opts); err != nil {
			viol("after-refusal-reopen", "re-open failed: %v", err)
		} else {
			cmp(f, "after-refusal-fresh")
		}
		res.Data = engine.J(map[string]interface{}{"value": v.Name, "pos": c.Pos, "epn": c.EPN, "outcome": res.Outcome})
		return res
	}
	res.Outcome = "stored"
	res.Nontrivial = v.Name != "NULL"
	cmp(w1, "after-commit")
	f := w.NewClient("fresh")
	if err := f.Create(opts); err != nil {
		viol("fresh", "re-open failed: %v", err)
	} else {
		cmp(f, "fresh-connection")
	}
	f.Close()
	// the row is modified later without touching the value: a later UPDATE of another column on the writer
	// (the stored row is re-timed), and a concurrent later UPDATE of that column by a third writer that saw
	// the row (the value is carried through a cross-writer row merge)
	w3 := w.NewClient("w3")
	if err := w3.Create(opts); err != nil {
		viol("w3-open", "third writer cannot open: %v", err)
		return res
	}
	keyPh, keyArgs := "'k1'", []interface{}(nil)
	if c.Pos == "key" {
		keyPh, keyArgs = ph, args
	}
	w.SetClock(engine.T(1150))
	nerr = w1.Exec("update nat set c='x1' where a="+keyPh, keyArgs...)
	serr = w1.Exec("update {T} set c='x1' where a="+keyPh, keyArgs...)
	if (nerr == nil) != (serr == nil) {
		viol("update-other-column", "native %v, s3db %v", nerr, serr)
	}
	cmp(w1, "after-update-of-other-column")
	w.SetClock(engine.T(1250))
	nerr = w1.Exec("update nat set c='x2' where a="+keyPh, keyArgs...)
	serr = w3.Exec("update {T} set c='x2' where a="+keyPh, keyArgs...)
	if (nerr == nil) != (serr == nil) {
		viol("update-other-column-w3", "native %v, s3db %v", nerr, serr)
	}
	// second writer: unrelated row (later time) and a conflicting OLDER insert of the same key that must lose
	w.SetClock(engine.T(1050)) // older than w1's insert at 1100
	var ins2 string
	if c.Pos == "key" {
		ins2 = "insert into {T}(a,b,c) values(" + ph + ",'older','oc')"
	} else {
		ins2 = "insert into {T}(a,b,c) values('k1','older','oc')"
	}
	if c.Pos == "key" {
		if err := w2.Exec(ins2, args...); err != nil {
			viol("w2-conflicting-insert", "second writer's insert failed: %v", err)
		}
	} else if err := w2.Exec(ins2); err != nil {
		viol("w2-conflicting-insert", "second writer's insert failed: %v", err)
	}
	w.SetClock(engine.T(1200))
	must(w1.Exec("insert into nat(a,b) values('zz-unrelated', 7)"))
	if err := w2.Exec("insert into {T}(a,b) values('zz-unrelated', 7)"); err != nil {
		viol("w2-insert", "second writer's insert failed: %v", err)
	}
	w.SetClock(engine.T(1300))
	m := w.NewClient("merger")
	if err := m.Create(opts); err != nil {
		viol("merge-open", "merging open failed: %v", err)
		return res
	}
	cmp(m, "after-merge")
	w.SetClock(engine.T(5000))
	if verr, err := m.Vacuum(engine.T(4000)); err != nil || verr != "" {
		viol("vacuum", "vacuum failed: %v %s", err, verr)
	}
	cmp(m, "after-vacuum")
	f2 := w.NewClient("fresh2")
	if err := f2.Create(opts); err != nil {
		viol("fresh-after-vacuum", "re-open failed: %v", err)
	} else {
		cmp(f2, "fresh-after-vacuum")
	}
	if len(w.B.Broken) > 0 {
		res.Violate("store-invariant", "%v [%s]", w.B.Broken, where)
	}
	res.Data = engine.J(map[string]interface{}{"value": v.Name, "pos": c.Pos, "epn": c.EPN, "outcome": res.Outcome, "stages": res.Trans})
	return res
}

func clip(s string, n int) string {
	if len(s) > n {
		return s[:n] + fmt.Sprintf("...(%d bytes)", len(s))
	}
	return s
}

// ---- overwrite stage: UPDATE of the column itself, for every ordered pair (previous value, new value) ----
//
// The row is inserted with the previous value and committed; then the same column is UPDATEd to the new value.
// What comes back (in the transaction, after commit, from a fresh connection) must be the NEW value, bit for bit
// and with its typeof(), whatever the previous one was - in particular when the two compare equal across storage
// classes (1 and 1.0, 0.0 and -0.0, 2^53 and 2^53.0).

func c08OverwriteWorker(raw json.RawMessage) (res *engine.Result) {
	var c c08Case
	must(json.Unmarshal(raw, &c))
	res = &engine.Result{}
	vals := c08Values(c.Th)
	v := vals[c.I]
	defer func() {
		if p := recover(); p != nil {
			res.Violate("go-panic:"+engine.NormalizePanic(fmt.Sprint(p)), "panic: %v [overwrite, new value %s]", p, v.Name)
			engine.Poisoned, res.Poisoned = true, true
		}
	}()
	bind := func(x c08Val) (string, []interface{}) {
		if x.V != nil {
			return "?", []interface{}{x.V.Go()}
		}
		return x.Expr, nil
	}
	cls := func(x c08Val) string {
		if x.V == nil {
			return "expr"
		}
		if x.V.T == "t" && x.V.S == "" {
			return "empty-text"
		}
		if len(x.Name) > 24 {
			return x.V.T + "-long"
		}
		return x.V.T
	}
	sel := "select typeof(a), a, typeof(b), b, typeof(c), c from %s order by a"
	for _, prev := range vals {
		if len(prev.Name) > 24 && len(v.Name) > 24 {
			continue // long x long adds nothing
		}
		where := fmt.Sprintf("previous value=%s new value=%s epn=%d", prev.Name, v.Name, c.EPN)
		viol := func(stage, f string, a ...interface{}) {
			class := "value-altered:" + cls(v) + ":col:" + stage + "-over-" + cls(prev)
			visible := v
			if stage == "after-refused-update" {
				visible = prev // the UPDATE was refused: the previous value is what must be there
			}
			if cls(visible) == "empty-text" {
				class = "empty-text-reads-null:col" // one root cause at every stage (see KNOWN_FINDINGS)
			}
			res.Violate(class, "[%s] "+f+" ["+where+"]", append([]interface{}{stage}, a...)...)
		}
		w := engine.NewWorld()
		w.SetClock(engine.T(1000))
		opts := engine.TableOpts{Columns: "a primary key, b, c", EPN: c.EPN}
		w1 := w.NewClient("w1")
		must(w1.Create(opts))
		must(w1.Exec("create table nat(a primary key, b, c) without rowid"))
		cmp := func(cl *engine.Client, stage string) bool {
			want, _ := w1.Query(fmt.Sprintf(sel, "nat"))
			got, err := cl.Query(fmt.Sprintf(sel, "{T}"))
			res.Trans++
			if err != nil {
				viol(stage, "select failed: %v", err)
				return false
			}
			if !got.Equal(want) {
				viol(stage, "%s", clip(engine.Diff(want, got), 600))
				return false
			}
			return true
		}
		func() {
			defer w.Close()
			pph, pargs := bind(prev)
			must(w1.Exec("begin"))
			for i := 0; i < 5; i++ { // a few neighbours so that epn=2 gives a multi-level tree
				must(w1.Exec("insert into nat values(?,?,?)", fmt.Sprintf("p%d", i), i, nil))
				must(w1.Exec("insert into {T} values(?,?,?)", fmt.Sprintf("p%d", i), i, nil))
			}
			nerr := w1.Exec("insert into nat(a,b) values('k1',"+pph+")", pargs...)
			serr := w1.Exec("insert into {T}(a,b) values('k1',"+pph+")", pargs...)
			if nerr != nil || serr != nil {
				w1.Exec("rollback")
				return // refusals of the INSERT are the main pass's business
			}
			if w1.Exec("commit") != nil {
				w1.Exec("rollback")
				return
			}
			w.SetClock(engine.T(1100))
			vph, vargs := bind(v)
			must(w1.Exec("begin"))
			nerr = w1.Exec("update nat set b="+vph+" where a='k1'", vargs...)
			serr = w1.Exec("update {T} set b="+vph+" where a='k1'", vargs...)
			res.Execs++
			if nerr != nil && serr == nil {
				viol("update", "native refused (%v) but s3db accepted", nerr)
				w1.Exec("rollback")
				return
			}
			if serr != nil {
				w1.Exec("rollback") // refused with an error: allowed; nothing may have changed
				res.Outcomes = append(res.Outcomes, "update-refused")
				cmp(w1, "after-refused-update")
				return
			}
			res.NontrivN++
			res.Outcomes = append(res.Outcomes, "updated")
			if !cmp(w1, "update-in-transaction") {
				w1.Exec("rollback")
				return
			}
			if err := w1.Exec("commit"); err != nil {
				w1.Exec("rollback")
				res.Outcomes = append(res.Outcomes, "update-refused-at-commit")
				cmp(w1, "after-refused-update")
				return
			}
			if !cmp(w1, "update-after-commit") {
				return
			}
			f := w.NewClient("fresh")
			if err := f.Create(opts); err != nil {
				viol("update-fresh", "re-open failed: %v", err)
				return
			}
			cmp(f, "update-fresh-connection")
		}()
	}
	res.Data = engine.J(map[string]interface{}{"stage": "overwrite", "new_value": v.Name, "previous_values": len(vals), "epn": c.EPN})
	return res
}
