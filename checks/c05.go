package checks

import (
	"encoding/json"
	"fmt"
	"strings"

	"verif/engine"
)

// C05 — transactions are atomic and isolated: rollback restores, nothing leaks early.
//
// All statement sequences up to a depth over a transaction alphabet on one connection that holds the
// s3db table and a native mirror (so BEGIN/COMMIT/ROLLBACK and SQLite's forced rollbacks hit both), with
// an injected failing version PUT ("arm") to force failing commits.  Oracles after the last step of every
// sequence (every prefix is itself an enumerated sequence).

var c05Ops = []string{
	"begin", "commit", "rollback",
	"insert 1", "insert 2", "insert 5", "insert null-key",
	"update 1", "update range", "delete 1", "delete 2",
	"arm-next-version-put",
	"arm-next-retire-request", // the PUT root/merged/<parent> of the next commit fails (the code swallows retire errors)
	"insert other-table",      // a second s3db table on the same connection (SQLite begins each table lazily)
}

type c05Case struct {
	EPN   int   `json:"epn"`
	WT    bool  `json:"wt"` // explicit write_time set on the connection
	First []int `json:"first"`
	Depth int   `json:"depth"`
	Cache int   `json:"cache,omitempty"` // node_cache_entries
	// Pin: write_time is set ONCE on the connection, before the base rows are written, and never changed: every
	// statement ties with the stored rows (the retry-batch usage of C15). How a tie resolves is outside the
	// property, so the native mirror is not consulted; rollback, isolation and the request-log oracles remain.
	Pin bool `json:"pin,omitempty"`
}

func init() {
	All["C05"] = &Check{Level: "model_checking", Run: c05Run}
	engine.RegisterWorker("c05", c05Worker)
}

func c05Run(r *engine.Run) int {
	depth := 4
	if r.Thorough() {
		depth = 5
	}
	r.Rule = "all sequences of length 1..depth over {" + strings.Join(c05Ops, ", ") + "} (invalid nesting pruned) x entries_per_node {2,4096} x write_time {unset,set}, starting from a committed 3-row table; oracles after the last step: same rows as the native mirror, a fresh reader sees exactly the last committed rows, request log (no version PUT before COMMIT / after ROLLBACK, one version per changing commit, none otherwise), ROLLBACK restores the pre-BEGIN tree dump exactly, one write time per transaction. Non-trivial = sequence contains a transaction boundary or a failing step"
	r.Bounds["depth"] = depth
	r.Bounds["alphabet"] = c05Ops
	r.Bounds["entries_per_node"] = []int{2, 4096}
	r.Assumptions = []string{"failing multi-row statements inside an explicit transaction are kept out (SQLite needs xSavepoint for statement rollback; the property does not speak about it)", "injected commit failure = version PUT fails before taking effect"}
	var cases []json.RawMessage
	for _, epn := range []int{2, 4096} {
		for _, wt := range []bool{false, true} {
			for a := range c05Ops {
				for b := range c05Ops {
					cases = append(cases, engine.J(c05Case{EPN: epn, WT: wt, First: []int{a, b}, Depth: depth}))
				}
				cases = append(cases, engine.J(c05Case{EPN: epn, WT: wt, First: []int{a}, Depth: 1}))
			}
		}
	}
	// single-node table with a node cache: the cached node object is shared between the live tree and the
	// snapshot taken at BEGIN, so anything that modifies stored values in place survives a ROLLBACK
	for a := range c05Ops {
		for b := range c05Ops {
			cases = append(cases, engine.J(c05Case{EPN: 4096, WT: true, Cache: 100, First: []int{a, b}, Depth: depth}))
		}
	}
	// pinned write time (set once, never changed), single node, without and with a node cache
	for _, cache := range []int{0, 100} {
		for a := range c05Ops {
			for b := range c05Ops {
				cases = append(cases, engine.J(c05Case{EPN: 4096, WT: true, Pin: true, Cache: cache, First: []int{a, b}, Depth: depth}))
			}
		}
	}
	r.Bounds["node_cache_entries"] = []int{0, 100}
	r.Bounds["write_time"] = []string{"unset", "set before every statement (increasing)", "set once before the base rows and never changed (single node only; no mirror comparison)"}
	n := 0
	r.MapBudget("c05", cases, func(i int, c json.RawMessage, res *engine.Result) {
		r.Add("c05", c, res)
		n++
		if n%97 == 1 && res.Data != nil {
			r.Sample(json.RawMessage(res.Data))
		}
	})
	return r.Vacuity(3, 100)
}

func c05Worker(raw json.RawMessage) *engine.Result {
	var c c05Case
	must(json.Unmarshal(raw, &c))
	res := &engine.Result{}
	var sample []string
	for total := len(c.First); total <= c.Depth; total++ {
		seqs(len(c05Ops), total-len(c.First), func(tailOps []int) {
			ops := append(append([]int{}, c.First...), tailOps...)
			names, ok := c05RunSeq(res, c, ops)
			if ok && sample == nil && len(names) >= 3 {
				sample = names
			}
		})
		if len(c.First) == 1 {
			break
		}
	}
	res.Data = engine.J(map[string]interface{}{"epn": c.EPN, "write_time_set": c.WT, "ops": sample})
	return res
}

func isVersionPut(rq engine.Req) bool {
	return rq.Op == "PUT" && strings.HasPrefix(rq.Key, "p/") && strings.Contains(rq.Key, "/root/current/")
}

func c05RunSeq(res *engine.Result, c c05Case, ops []int) ([]string, bool) {
	// static pruning of invalid nesting
	inTx := false
	for _, o := range ops {
		switch c05Ops[o] {
		case "begin":
			if inTx {
				return nil, false
			}
			inTx = true
		case "commit", "rollback":
			if !inTx {
				return nil, false
			}
			inTx = false
		}
	}
	if c.Pin {
		// a failed retire request leaves the superseded version current; a later opener then MERGES two versions
		// whose entries carry the same time. How such a tie resolves is outside the property.
		for _, o := range ops {
			if c05Ops[o] == "arm-next-retire-request" {
				return nil, false
			}
		}
	}
	names := make([]string, len(ops))
	for i, o := range ops {
		names[i] = c05Ops[o]
	}
	where := fmt.Sprintf("epn=%d cache=%d write_time_set=%v pinned=%v ops=%v", c.EPN, c.Cache, c.WT, c.Pin, names)
	violFrom := len(res.Viol)
	defer func() {
		c05Feat(res, violFrom, c.EPN)
		if c.Cache > 0 {
			for i := violFrom; i < len(res.Viol); i++ {
				res.Viol[i].Class += "|cache>0"
			}
		}
		if c.Pin {
			for i := violFrom; i < len(res.Viol); i++ {
				res.Viol[i].Class += "|pinned-write-time"
			}
		}
	}()
	w := engine.NewWorld()
	defer w.Close()
	w.SetClock(engine.T(1000))
	cl := w.NewClient("w1")
	must(cl.Create(engine.TableOpts{EPN: c.EPN, Cache: c.Cache}))
	must(cl.Exec("create table nat(a primary key, b, c) without rowid"))
	must(cl.Create(engine.TableOpts{EPN: c.EPN, Cache: c.Cache, Suffix: "_o", Prefix: "other"}))
	must(cl.Exec("create table nat2(a primary key, b, c) without rowid"))
	otherKey := 0
	if c.Pin {
		must(cl.SetWriteTime(engine.T(1000)))
	}
	must(cl.Exec("begin"))
	for _, k := range []int{1, 3, 4} {
		must(cl.Exec("insert into nat values(?,?,?)", k, "v", k))
		must(cl.Exec("insert into {T} values(?,?,?)", k, "v", k))
	}
	must(cl.Exec("commit"))
	armed := false
	armedRetire := false
	cl.H.Fault = func(rq *engine.Req) (engine.FaultMode, error) {
		if armed && isVersionPut(*rq) {
			armed = false
			return engine.FailBefore, engine.ErrTransport
		}
		if armedRetire && rq.Op == "PUT" && strings.HasPrefix(rq.Key, "p/") && strings.Contains(rq.Key, "/root/merged/") {
			armedRetire = false
			return engine.FailBefore, engine.ErrTransport
		}
		return engine.FaultNone, nil
	}
	committedSQL := "select a,b,c from nat order by a"
	if c.Pin {
		committedSQL = "select a,b,c from {T} order by a"
	}
	committed, _ := cl.Query(committedSQL)
	var preBegin, preBeginOther *engine.TreeDump
	var txLogStart int
	var lastDump *engine.TreeDump
	lastDump, _ = engine.LiveDump(cl.Tab)
	inTx = false
	nontrivial := false
	t := 1000
	for step, o := range ops {
		last := step == len(ops)-1
		op := c05Ops[o]
		t += 100
		w.SetClock(engine.T(t))
		logStart := w.B.LogLen()
		armedBefore := armed
		var nerr, serr error
		if c.WT && !c.Pin {
			// explicit, strictly increasing write time per statement (ties are outside the property)
			must(cl.SetWriteTime(engine.T(t)))
		}
		both := func(q string, args ...interface{}) {
			serr = cl.Exec(strings.ReplaceAll(q, "%s", "{T}"), args...)
			if !inTx && serr != nil && engine.ErrClass(serr) == "err" {
				// autocommit statement whose own commit failed: it is a separate SQLite transaction from the
				// mirror's statement, so the mirror simply does not run it
				nerr = fmt.Errorf("skipped: s3db statement failed to commit")
				return
			}
			nerr = cl.Exec(strings.ReplaceAll(q, "%s", "nat"), args...)
		}
		switch op {
		case "begin":
			nontrivial = true
			preBegin, _ = engine.LiveDump(cl.Tab)
			preBeginOther, _ = engine.LiveDump(cl.Tab + "_o")
			txLogStart = w.B.LogLen()
			serr = cl.Exec("begin")
			inTx = serr == nil
		case "commit":
			serr = cl.Exec("commit")
			if serr != nil && !strings.Contains(serr.Error(), "no transaction") {
				// a failed COMMIT leaves SQLite's transaction open: roll it back explicitly
				// (that is what an application does; it is also the "forced by a failing commit" path)
				cl.Exec("rollback")
			}
			inTx = false
		case "rollback":
			serr = cl.Exec("rollback")
			inTx = false
		case "insert 1":
			both("insert into %s values(1,'i1',10)")
		case "insert 2":
			both("insert into %s values(2,'i2',20)")
		case "insert 5":
			both("insert into %s values(5,'i5',50)")
		case "insert null-key":
			both("insert into %s values(NULL,'n',0)")
		case "update 1":
			both(fmt.Sprintf("update %%s set b='u%d' where a=1", step))
		case "update range":
			both(fmt.Sprintf("update %%s set c='r%d' where a>=3", step))
		case "delete 1":
			both("delete from %s where a=1")
		case "delete 2":
			both("delete from %s where a=2")
		case "insert other-table":
			otherKey++
			both2 := func(q string, args ...interface{}) {
				serr = cl.Exec(strings.ReplaceAll(q, "%s", "{T}_o"), args...)
				if !inTx && serr != nil && engine.ErrClass(serr) == "err" {
					nerr = fmt.Errorf("skipped")
					return
				}
				nerr = cl.Exec(strings.ReplaceAll(q, "%s", "nat2"), args...)
			}
			both2("insert into %s values(?,?,?)", otherKey, "o", step)
		case "arm-next-version-put":
			armed = true
			nontrivial = true
			continue
		case "arm-next-retire-request":
			armedRetire = true
			nontrivial = true
			continue
		}
		res.Trans++
		if serr != nil && last {
			// whatever made the statement / COMMIT fail: the bucket must not hold a new version of this table
			from := logStart
			if op == "commit" {
				from = txLogStart
			}
			for _, rq := range w.B.LogSince(from) {
				if isVersionPut(rq) && (rq.Outcome == "ok" || rq.Outcome == "applied-fault") {
					res.Violate("failed-statement-published-a-version:"+strings.Fields(op)[0], "%s failed (%v) but its version object %s is in the bucket: other openers see a transaction that this connection rolled back [%s]", op, serr, rq.Key, where)
					break
				}
			}
		}
		if op != "begin" && op != "commit" && op != "rollback" {
			nc, sc := engine.ErrClass(nerr), engine.ErrClass(serr)
			if nc != "ok" || sc != "ok" {
				nontrivial = true
			}
			if nc != sc && !c.Pin && !(sc == "err" && !inTx && armedBefore) {
				// (an autocommit statement may fail in s3db because its commit was armed to fail; handled below)
				if last {
					res.Violate("statement-outcome:"+strings.Fields(op)[0], "%s: native %v, s3db %v [%s]", op, nerr, serr, where)
				}
			}
			if nerr == nil && serr != nil && !inTx {
				// autocommit statement whose commit failed: SQLite rolled both back; re-apply nothing
			}
		}
		// root-cause check at every rollback event: the tree must be exactly what it was before the transaction.
		// A sequence that continues after a failed restore only shows consequences of it; its prefix ending
		// at the rollback is enumerated on its own and reports the root cause there.
		rbKind := ""
		switch {
		case op == "rollback":
			rbKind = "explicit"
		case op == "commit" && serr != nil:
			rbKind = "failed-commit"
		case op != "begin" && op != "commit" && !inTx && serr != nil:
			rbKind = "failed-autocommit-statement"
		}
		if rbKind != "" {
			ref := preBegin
			if rbKind == "failed-autocommit-statement" {
				ref = lastDump
			}
			now, derr := engine.LiveDump(cl.Tab)
			if ref != nil && (derr != nil || now.Canon(true) != ref.Canon(true)) {
				if last {
					after := "unreadable"
					if derr == nil {
						after = now.Canon(true)
					}
					res.Violate("rollback-does-not-restore:"+rbKind, "tree after the rollback differs from the tree before the transaction:\nbefore:\n%s\nafter:\n%s\n[%s]", ref.Canon(true), after, where)
				}
				return names, false
			}
		}
		if !last {
			if !inTx {
				committed, _ = cl.Query(committedSQL)
				lastDump, _ = engine.LiveDump(cl.Tab)
			}
			continue
		}
		// ---- oracles after the last step ----
		nat, _ := cl.Query("select a,b,c from nat order by a")
		got, gerr := cl.Query("select a,b,c from {T} order by a")
		if c.Pin {
			if gerr != nil {
				res.Violate("own-view-unreadable:"+op, "after %s the connection cannot read its table: %v [%s]", op, gerr, where)
			}
			nat = got
		} else if gerr != nil || !got.Equal(nat) {
			res.Violate("own-view-differs:"+op, "after %s the connection sees %v (err %v), native mirror %v [%s]", op, got, gerr, nat, where)
		}
		nat2, _ := cl.Query("select a,b,c from nat2 order by a")
		got2, g2err := cl.Query("select a,b,c from {T}_o order by a")
		if !c.Pin && (g2err != nil || !got2.Equal(nat2)) {
			cls := "own-view-differs-other-table:" + op
			if op == "commit" && serr != nil && g2err == nil {
				// COMMIT over two s3db tables: did the other table publish its version before this table's failed?
				for _, rq := range w.B.LogSince(txLogStart) {
					if rq.Op == "PUT" && strings.HasPrefix(rq.Key, "other/") && strings.Contains(rq.Key, "/root/current/") && rq.Outcome == "ok" {
						cls = "failed-commit-over-two-tables-keeps-first-tables-version"
					}
				}
			}
			res.Violate(cls, "after %s (result: %v) the second table shows %v (err %v), its native mirror %v [%s]", op, serr, got2, g2err, nat2, where)
		}
		log := w.B.LogSince(logStart)
		dump, _ := engine.LiveDump(cl.Tab)
		if !inTx {
			committed = nat
		}
		// a fresh reader sees exactly the last committed rows
		f := w.NewClient("reader")
		if err := f.Create(engine.TableOpts{EPN: c.EPN, ReadOnly: true}); err != nil {
			res.Violate("reader-open-failed", "%v [%s]", err, where)
		} else {
			seen, err := f.Query("select a,b,c from {T} order by a")
			if err != nil || !seen.Equal(committed) {
				res.Violate("isolation:"+op, "another opener sees %v (err %v) but the last committed rows are %v (transaction open: %v) [%s]", seen, err, committed, inTx, where)
			}
		}
		f.Close()
		versionPuts := func(l []engine.Req) int {
			n := 0
			for _, rq := range l {
				if isVersionPut(rq) && (rq.Outcome == "ok" || rq.Outcome == "applied-fault") {
					n++
				}
			}
			return n
		}
		switch {
		case inTx:
			if n := versionPuts(w.B.LogSince(txLogStart)); n != 0 {
				res.Violate("version-before-commit", "%d version object(s) written inside an open transaction [%s]", n, where)
			}
		case op == "rollback" || (op == "commit" && serr != nil):
			if n := versionPuts(w.B.LogSince(txLogStart)); n != 0 {
				res.Violate("version-after-rollback", "%d version object(s) written by a transaction that was rolled back [%s]", n, where)
			}
		case op == "commit" && serr == nil:
			n := versionPuts(w.B.LogSince(txLogStart))
			changed := preBegin != nil && dump != nil && dump.Canon(true) != preBegin.Canon(true)
			if n > 1 || (changed && n != 1) || (!changed && n != 0) {
				res.Violate("versions-per-commit", "COMMIT wrote %d version objects (tree changed: %v) [%s]", n, changed, where)
			}
			if !c.WT {
				od, _ := engine.LiveDump(cl.Tab + "_o")
				c05OneWriteTime(res, preBegin, dump, preBeginOther, od, where)
			}
		default: // autocommit statement
			n := versionPuts(log)
			changed := lastDump != nil && dump != nil && dump.Canon(true) != lastDump.Canon(true)
			if n > 1 || (changed && n != 1) || (!changed && n != 0) {
				res.Violate("versions-per-autocommit", "autocommit %s wrote %d version objects (tree changed: %v, err %v) [%s]", op, n, changed, serr, where)
			}
		}
		if len(w.B.Broken) > 0 {
			res.Violate("store-invariant", "%v [%s]", w.B.Broken, where)
		}
		res.States = append(res.States, fmt.Sprintf("%v|%s|%s", inTx, strings.Join(nat, ";"), strings.Join(committed, ";")))
		res.Outcomes = append(res.Outcomes, fmt.Sprintf("%s:%s", op, engine.ErrClass(serr)))
	}
	res.Execs++
	if nontrivial {
		res.NontrivN++
	}
	return names, true
}

// c05Feat tags class keys with the tree shape the finding may depend on.
func c05Feat(res *engine.Result, from int, epn int) {
	if epn < 4096 {
		for i := from; i < len(res.Viol); i++ {
			if !strings.HasSuffix(res.Viol[i].Class, "|multi-level") {
				res.Viol[i].Class += "|multi-level"
			}
		}
	}
}

// c05OneWriteTime checks that everything a transaction wrote, in both tables, carries one write time.
func c05OneWriteTime(res *engine.Result, before, after, before2, after2 *engine.TreeDump, where string) {
	times := map[int64]bool{}
	collect := func(before, after *engine.TreeDump) {
		if before == nil || after == nil {
			return
		}
		old := map[string]engine.Entry{}
		for _, e := range before.Entries {
			old[e.Key] = e
		}
		for _, e := range after.Entries {
			o, had := old[e.Key]
			if had && o.Canon(true) == e.Canon(true) {
				continue
			}
			if !had || o.DelAt != e.DelAt || o.Deleted != e.Deleted {
				times[e.DelAt] = true
			}
			for n, cv := range e.Cols {
				if ov, ok := o.Cols[n]; !had || !ok || ov != cv {
					times[cv.At] = true
				}
			}
		}
	}
	collect(before, after)
	collect(before2, after2)
	if len(times) > 1 {
		var ts []string
		for t := range times {
			ts = append(ts, fmt.Sprint(t))
		}
		res.Violate("several-write-times-in-one-transaction", "the writes of one transaction carry %d different times %v [%s]", len(times), ts, where)
	}
}
