package checks

import (
	"encoding/json"
	"fmt"
	"os"
	"os/exec"
	"path/filepath"
	"regexp"
	"sort"
	"strings"
	"sync"
	"time"

	"verif/engine"
)

// C19 — independent connections can be used from different threads.
//
// (a) exhaustive: every interleaving (request + statement granularity, engine/sched.go, state-key pruning)
//     of 2 (quick) / 3 (thorough) connections running their own statement streams, on different bucket
//     prefixes and on one shared prefix.  Different prefixes: each connection's complete observation vector
//     (statement outcomes, rows, s3db_conn read-back, stored entry times) must equal that of its solo run.
//     Shared prefix: final merged rows = all accepted statements; own writes visible; no deadlock.
// (b) auxiliary, sampled (not exhaustive): the same bodies free-running on real threads in a binary built
//     with -race; any race report is a violation.

type c19Stmt struct {
	Op  string `json:"op"`
	Arg int    `json:"arg,omitempty"`
}

type c19Stream struct {
	EPN    int       `json:"epn,omitempty"` // entries_per_node (default 4096)
	SameEP bool      `json:"same_endpoint,omitempty"`
	Name   string    `json:"name"`
	Prefix string    `json:"prefix"`
	Clock  int       `json:"clock"`
	Steps  []c19Stmt `json:"steps"`
}

// c19ShortStreams are the quick-tier streams for the shared prefix (fewer statements, same attribute mix).
func c19ShortStreams() []c19Stream {
	a := c19Stream{Name: "a", Prefix: "shared", Clock: 1000, Steps: []c19Stmt{
		{Op: "open"}, {Op: "set-write-time", Arg: 5000}, {Op: "insert", Arg: 1}, {Op: "read-conn"}, {Op: "insert", Arg: 2}, {Op: "version"}, {Op: "times"},
	}}
	b := c19Stream{Name: "b", Prefix: "shared", Clock: 2000, Steps: []c19Stmt{
		{Op: "open"}, {Op: "dup-name"}, {Op: "set-write-time", Arg: 6000}, {Op: "insert", Arg: 11}, {Op: "set-deadline-past"}, {Op: "insert", Arg: 12},
		{Op: "clear-deadline"}, {Op: "refresh"}, {Op: "select-all"}, {Op: "times"},
	}}
	return []c19Stream{a, b}
}

func c19Streams(shared bool, n int) []c19Stream {
	pfx := func(i int) string {
		if shared {
			return "shared"
		}
		return fmt.Sprintf("p%d", i)
	}
	a := c19Stream{Name: "a", Prefix: pfx(0), Clock: 1000, Steps: []c19Stmt{
		{Op: "open"}, {Op: "set-write-time", Arg: 5000}, {Op: "insert", Arg: 1}, {Op: "set-deadline-future"},
		{Op: "insert", Arg: 2}, {Op: "read-conn"}, {Op: "update", Arg: 1}, {Op: "select"}, {Op: "version"}, {Op: "clear-write-time"}, {Op: "insert", Arg: 3}, {Op: "times"},
	}}
	b := c19Stream{Name: "b", Prefix: pfx(1), Clock: 2000, Steps: []c19Stmt{
		{Op: "open"}, {Op: "dup-name"}, {Op: "set-write-time", Arg: 6000}, {Op: "insert", Arg: 11}, {Op: "set-deadline-past"},
		{Op: "insert", Arg: 12}, {Op: "read-conn"}, {Op: "clear-deadline"}, {Op: "insert", Arg: 13}, {Op: "refresh"}, {Op: "select"}, {Op: "select-all"}, {Op: "times"},
	}}
	if !shared {
		b.Steps = append(b.Steps, c19Stmt{Op: "vacuum"}, c19Stmt{Op: "select"})
	}
	c := c19Stream{Name: "c", Prefix: pfx(2), Clock: 3000, Steps: []c19Stmt{
		{Op: "open"}, {Op: "begin"}, {Op: "insert", Arg: 21}, {Op: "insert", Arg: 22}, {Op: "commit"}, {Op: "read-conn"}, {Op: "select"}, {Op: "times"},
	}}
	out := []c19Stream{a, b, c}
	return out[:n]
}

type c19Case struct {
	Shared bool `json:"shared"`
	N      int  `json:"n"`
	Short  bool `json:"short,omitempty"`
	// Nodes: two connections cold-read one pre-populated multi-level table; node requests are scheduling
	// points too, so two connections can be in the middle of fetching the same node. Nothing is written, so
	// each connection's observations must equal its solo run, and neither may wait for the other.
	Nodes bool `json:"nodes,omitempty"`
	// Prefix, when set, is one complete recorded schedule: only that execution runs (witness confirmation, replay)
	Prefix []int `json:"prefix,omitempty"`
}

func c19NodeStreams() []c19Stream {
	a := c19Stream{Name: "a", Prefix: "shared", EPN: 2, SameEP: true, Clock: 1000, Steps: []c19Stmt{{Op: "open"}, {Op: "select-all"}, {Op: "select"}}}
	b := c19Stream{Name: "b", Prefix: "shared", EPN: 2, SameEP: true, Clock: 2000, Steps: []c19Stmt{{Op: "open"}, {Op: "set-deadline-past"}, {Op: "select-all"}, {Op: "clear-deadline"}, {Op: "select-all"}}}
	return []c19Stream{a, b}
}

// c19NodeMode is set by the worker for a Nodes case (a worker process runs one case at a time).
var c19NodeMode bool

func init() {
	All["C19"] = &Check{Level: "model_checking", Run: c19Run}
	engine.RegisterWorker("c19", c19Worker)
}

func c19Run(r *engine.Run) int {
	n := 2
	if r.Thorough() {
		n = 3
	}
	r.Rule = "every interleaving (visible object-store requests + statement boundaries) of the statement streams of 2 (quick) / 3 (thorough) connections, on different prefixes (oracle: each connection's observation vector equals its solo run) and on one shared prefix (oracle: final merged rows = all accepted statements, own writes visible, no deadlock); depth-first search with global-state-key pruning. Plus an auxiliary, sampled pass: the same bodies free-running on OS threads in a -race build. Non-trivial = execution with at least one preemption"
	r.Bounds["connections"] = n
	r.Assumptions = []string{"data-race freedom is SAMPLED by Go's race detector in a free-running pass (a cooperative scheduler's hand-offs are happens-before edges and would blind it); everything else is enumerated", "s3db_vacuum only in the different-prefix streams (on a shared prefix its node DELETEs are not independent of other clients' node requests)", "node requests are not scheduling points"}
	var cases []json.RawMessage
	if r.Thorough() {
		cases = append(cases, engine.J(c19Case{Shared: false, N: 3}), engine.J(c19Case{Shared: true, N: 3}),
			engine.J(c19Case{Shared: false, N: 2}), engine.J(c19Case{Shared: true, N: 2}), engine.J(c19Case{Shared: true, N: 2, Short: true}))
	} else {
		cases = append(cases, engine.J(c19Case{Shared: false, N: 2}), engine.J(c19Case{Shared: true, N: 2, Short: true}))
	}
	cases = append(cases, engine.J(c19Case{Shared: true, N: 2, Nodes: true}))
	engine.CaseTimeout = 45 * time.Minute // these cases run a whole schedule search under their own time budget
	engine.Map("c19", cases, func(i int, c json.RawMessage, res *engine.Result) {
		r.Add("c19", c, res)
		if res.Data != nil {
			var d map[string]interface{}
			json.Unmarshal(res.Data, &d)
			r.Sample(d)
			if d["complete"] == false {
				r.Exhaustive = false
			}
		}
	})
	// (b) auxiliary race pass
	runs := 30
	if r.Thorough() {
		runs = 400
	}
	races, ran, note := c19RacePass(runs, r.Seed)
	r.Extra["race_pass"] = map[string]interface{}{"auxiliary_sampled": true, "runs": ran, "race_reports": len(races), "note": note}
	for _, rc := range races {
		r.Violation("", nil, "data-race:"+rc.class, rc.report)
	}
	return r.Vacuity(2, 20)
}

func c19Worker(raw json.RawMessage) *engine.Result {
	var c c19Case
	must(json.Unmarshal(raw, &c))
	res := &engine.Result{}
	streams := c19Streams(c.Shared, c.N)
	if c.Short {
		streams = c19ShortStreams()
	}
	c19NodeMode = c.Nodes
	if c.Nodes {
		streams = c19NodeStreams()
	}
	// solo runs
	solo := map[string][]string{}
	for _, st := range streams {
		s, vec := c19Build([]c19Stream{st}, nil)
		s.Execute()
		solo[st.Name] = append([]string{}, *vec[st.Name]...)
		s.W.Close()
	}
	outcomes := map[string]bool{}
	var sample []string
	var last []int
	stuck := false
	mk := func(choices []int) *engine.Sched {
		s, vec := c19Build(streams, choices)
		c19Vecs[s] = vec
		return s
	}
	check0 := func(s *engine.Sched) {
		vec := c19Vecs[s]
		delete(c19Vecs, s)
		res.Execs++
		res.Trans += len(s.Taken)
		last = s.Taken
		if s.Preemptions(len(s.Taken)) > 0 {
			res.NontrivN++
		}
		trace := func() string { return strings.Join(s.Labels, "\n    ") }
		if s.Deadlock {
			res.Violate("deadlock", "connection %s was given the turn and neither finished nor reached its next request while the other connections were parked before theirs: it waits for another connection (shared prefix: %v)\n    %s", s.Stuck, c.Shared, trace())
			res.Poisoned, engine.Poisoned = true, true // goroutines of this execution are stuck for good
			stuck = true
			return
		}
		if n, p := s.Panicked(); p != nil {
			res.Violate("client-panic:"+engine.NormalizePanic(fmt.Sprint(p)), "connection %s panicked: %v\n    %s", n, p, trace())
			res.Poisoned = true
			return
		}
		var all []string
		for _, st := range streams {
			got := *vec[st.Name]
			all = append(all, st.Name+"="+strings.Join(got, ","))
			if !c.Shared || c.Nodes {
				if strings.Join(got, "\n") != strings.Join(solo[st.Name], "\n") {
					d := firstDiff(solo[st.Name], got)
					res.Violate("cross-talk:"+strings.SplitN(d, " ", 2)[0], "connection %s on its own prefix observes something else than in its solo run: %s\n  solo:        %v\n  interleaved: %v\n    %s", st.Name, d, solo[st.Name], got, trace())
				}
			} else {
				// attributes and stored times must still be the connection's own
				for i, g := range got {
					if i < len(solo[st.Name]) && (strings.HasPrefix(g, "read-conn") || strings.HasPrefix(g, "times") || strings.HasPrefix(g, "insert") || strings.HasPrefix(g, "set-")) && g != solo[st.Name][i] {
						res.Violate("cross-talk:"+strings.SplitN(g, " ", 2)[0], "connection %s (shared prefix): %q in the interleaved run, %q solo\n    %s", st.Name, g, solo[st.Name][i], trace())
					}
				}
			}
		}
		if c.Shared && !c.Nodes {
			// final merged rows = all accepted inserts
			w := s.W
			w.ClockFor = nil
			w.SetClock(engine.T(9000))
			f := w.NewClient("final")
			if err := f.Create(engine.TableOpts{Prefix: "shared", ReadOnly: true}); err != nil {
				res.Violate("final-open-fails", "%v\n    %s", err, trace())
			} else {
				rows, _ := f.Query("select a from {T} order by a")
				var want []string
				for _, st := range streams {
					for _, g := range *vec[st.Name] {
						var k int
						if n, _ := fmt.Sscanf(g, "insert %d ok", &k); n == 1 && strings.HasSuffix(g, "ok") {
							want = append(want, fmt.Sprintf("i%d", k))
						}
					}
				}
				sort.Slice(want, func(i, j int) bool {
					var a, b int
					fmt.Sscanf(want[i], "i%d", &a)
					fmt.Sscanf(want[j], "i%d", &b)
					return a < b
				})
				if strings.Join(rows, ",") != strings.Join(want, ",") {
					res.Violate("shared-prefix-final-rows", "after all connections finished a fresh open sees %v, the accepted inserts are %v\n    %s", rows, want, trace())
				}
			}
		}
		if len(s.W.B.Broken) > 0 {
			res.Violate("store-invariant", "%v", s.W.B.Broken)
		}
		// the holder connection took no part: its table must still be there, by name too, and close cleanly
		if hold := s.W.Lookup("hold"); hold != nil {
			s.W.ClockFor = nil
			rows, err := hold.Query("select a from {T}")
			if err != nil || strings.Join(rows, ",") != "i777" {
				res.Violate("cross-talk:bystander-rows", "the bystander connection reads %v (err %v) after the others ran\n    %s", rows, err, trace())
			}
			if _, err := hold.Version(); err != nil {
				res.Violate("cross-talk:bystander-by-name", "s3db_version on the bystander connection's own table fails after the others ran: %v\n    %s", err, trace())
				res.Poisoned = true // closing that connection would panic inside SQLite
				engine.Poisoned = true
				return
			}
		}
		outcomes[strings.Join(all, " | ")] = true
		if sample == nil && s.Preemptions(len(s.Taken)) >= 3 {
			sample = append([]string{}, s.Labels...)
		}
		s.W.Close()
	}
	check := func(s *engine.Sched) {
		nv := len(res.Viol)
		check0(s)
		if len(res.Viol) > nv && len(s.Taken) > 0 {
			// the witness is this one schedule, not the whole search
			one := c
			one.Prefix = append([]int{}, s.Taken...)
			for i := nv; i < len(res.Viol); i++ {
				res.Viol[i].Case = engine.J(one)
			}
		}
	}
	if len(c.Prefix) > 0 {
		// a recorded schedule: exactly this one execution (witness confirmation and replay)
		s := mk(c.Prefix)
		s.Execute()
		check(s)
		res.Data = engine.J(map[string]interface{}{"shared_prefix": c.Shared, "connections": c.N, "single_schedule": true, "decisions": len(c.Prefix), "solo_vectors": solo})
		return res
	}
	deadline := time.Now().Add(10 * time.Minute)
	execs, pruned, states, complete := engine.Explore(mk, check, -1, true, func() bool { return stuck || time.Now().After(deadline) })
	// determinism: replay the last schedule twice
	if last != nil && !stuck {
		var t []string
		for i := 0; i < 2; i++ {
			s, vec := c19Build(streams, last)
			s.Execute()
			var all []string
			for _, st := range streams {
				all = append(all, strings.Join(*vec[st.Name], ","))
			}
			t = append(t, strings.Join(s.Labels, ";")+strings.Join(all, "|"))
			s.W.Close()
		}
		if t[0] != t[1] {
			res.Violate("harness-nondeterminism", "replaying one schedule twice differs:\n%s\n%s", t[0], t[1])
		}
	}
	for o := range outcomes {
		res.Outcomes = append(res.Outcomes, o)
	}
	for i := 0; i < states; i++ {
		res.States = append(res.States, fmt.Sprintf("%v/%d/%d", c.Shared, c.N, i))
	}
	res.Data = engine.J(map[string]interface{}{"shared_prefix": c.Shared, "connections": c.N, "executions": execs, "pruned_executions": pruned, "distinct_states": states, "complete": complete, "distinct_observation_vectors": len(outcomes), "solo_vectors": solo, "sample_schedule": sample})
	return res
}

var c19Vecs = map[*engine.Sched]map[string]*[]string{}

func firstDiff(a, b []string) string {
	for i := 0; i < len(a) || i < len(b); i++ {
		x, y := "<nothing>", "<nothing>"
		if i < len(a) {
			x = a[i]
		}
		if i < len(b) {
			y = b[i]
		}
		if x != y {
			return fmt.Sprintf("%s vs solo %s", y, x)
		}
	}
	return "?"
}

// c19Build builds a world with one scheduled client per stream.
func c19Build(streams []c19Stream, choices []int) (*engine.Sched, map[string]*[]string) {
	w := engine.NewWorld()
	w.SetClock(engine.T(100))
	s := &engine.Sched{W: w, Choices: choices}
	vecs := map[string]*[]string{}
	// a connection outside the schedule that owns a table before anything else runs (target of "dup-name")
	hold := w.NewClient("hold")
	must(hold.Create(engine.TableOpts{Prefix: "hold", EPN: 4096}))
	must(hold.Exec("insert into {T} values(777,'hold',0)"))
	if c19NodeMode {
		// a multi-level table both connections will read cold; every request is a scheduling point
		seed := w.NewClient("seed")
		must(seed.Create(engine.TableOpts{Prefix: "shared", EPN: 2}))
		must(seed.Exec("begin"))
		for k := 1; k <= 8; k++ {
			must(seed.Exec("insert into {T} values(?,?,?)", k, "seed", k))
		}
		must(seed.Exec("commit"))
		seed.Close()
		s.Visible = func(*engine.Req) bool { return true }
		s.Stall = 2 * time.Minute
	}
	for _, st := range streams {
		st := st
		vec := &[]string{}
		vecs[st.Name] = vec
		cl := &engine.SchedClient{Name: st.Name, Clock: &engine.Clock{}}
		cl.Clock.Set(engine.T(st.Clock))
		cl.OnGrant = func(string) { w.SetActive(st.Name) } // a connection resumed in the middle of a statement
		cl.Run = func(s *engine.Sched, me *engine.SchedClient) {
			c19Body(w, st, func(label string) { s.Boundary(me, label) }, func(o string) {
				*vec = append(*vec, o)
				me.Observe("%s", o)
			})
		}
		s.Clients = append(s.Clients, cl)
	}
	return s, vecs
}

// c19Body is one connection's statement stream (shared by the scheduled and the free-running pass).
func c19Body(w *engine.World, st c19Stream, boundary func(string), obs func(string)) {
	var x *engine.Client
	opts := engine.TableOpts{Prefix: st.Prefix, EPN: 4096}
	if st.EPN > 0 {
		opts.EPN = st.EPN
	}
	opts.SharedEndpoint = st.SameEP
	errs := func(err error) string {
		if err != nil {
			return "error"
		}
		return "ok"
	}
	for i, step := range st.Steps {
		boundary(fmt.Sprintf("%s step %d %s", st.Name, i, step.Op))
		switch step.Op {
		case "open":
			x = w.NewClient(st.Name)
			obs("open " + errs(x.Create(opts)))
		case "set-write-time":
			obs("set-write-time " + errs(x.SetWriteTime(engine.T(step.Arg))))
		case "clear-write-time":
			obs("clear-write-time " + errs(x.Exec("update s3db_conn set write_time=NULL")))
		case "set-deadline-future":
			obs("set-deadline " + errs(x.Exec("update s3db_conn set deadline='2999-01-01 00:00:00'")))
		case "set-deadline-past":
			obs("set-deadline " + errs(x.Exec("update s3db_conn set deadline='2000-01-01 00:00:00'")))
		case "clear-deadline":
			obs("clear-deadline " + errs(x.Exec("update s3db_conn set deadline=NULL")))
		case "insert":
			obs(fmt.Sprintf("insert %d %s", step.Arg, errs(x.Exec("insert into {T} values(?,?,?)", step.Arg, st.Name, i))))
		case "update":
			obs(fmt.Sprintf("update %d %s", step.Arg, errs(x.Exec("update {T} set b='upd' where a=?", step.Arg))))
		case "begin":
			obs("begin " + errs(x.Exec("begin")))
		case "commit":
			obs("commit " + errs(x.Exec("commit")))
		case "refresh":
			obs("refresh " + errs(x.Refresh()))
		case "version":
			// by-name access to the connection's own table through the process-wide table registry
			_, err := x.Version()
			obs("version " + errs(err))
		case "dup-name":
			// CREATE with a table name that another connection of the process already uses (the pre-opened
			// holder): must be refused, and must leave the holder's table alone (checked after the run)
			hold := w.Lookup("hold")
			err := fmt.Errorf("no holder")
			if hold != nil {
				q := x.CreateSQL(engine.TableOpts{Prefix: "dup_" + st.Name, EPN: 4096})
				_, err = x.DB.Exec(strings.ReplaceAll(q, "{T}", hold.Tab))
			}
			obs("dup-name " + errs(err))
		case "vacuum":
			_, err := x.Vacuum(engine.T(50))
			obs("vacuum " + errs(err))
		case "read-conn":
			rows, err := x.Query("select deadline, write_time from s3db_conn")
			obs(fmt.Sprintf("read-conn %v %s", rows, errs(err)))
		case "select":
			lo := 1
			for _, s2 := range st.Steps {
				if s2.Op == "insert" {
					lo = s2.Arg / 10 * 10
					break
				}
			}
			rows, err := x.Query("select a,b from {T} where a>=? and a<? order by a", lo, lo+10)
			obs(fmt.Sprintf("select-own %v %s", rows, errs(err)))
		case "select-all":
			rows, err := x.Query("select count(*) from {T}")
			obs(fmt.Sprintf("select-all %v %s", rows, errs(err)))
		case "times":
			// stored entry times of this connection's own rows
			d, err := engine.LiveDump(x.Tab)
			var ts []string
			if err == nil {
				own := map[string]bool{}
				for _, s2 := range st.Steps {
					if s2.Op == "insert" {
						own[fmt.Sprintf("i%d", s2.Arg)] = true
					}
				}
				for _, e := range d.Entries {
					if own[e.Key] {
						ts = append(ts, fmt.Sprintf("%s@%d", e.Key, e.DelAt/1e9))
					}
				}
			}
			obs(fmt.Sprintf("times %v", ts))
		}
	}
	if x != nil {
		boundary(st.Name + " close")
		x.Close()
	}
}

// ---- (b) auxiliary race pass ----------------------------------------------------------------------

type raceReport struct{ class, report string }

var reRaceFrame = regexp.MustCompile(`(?m)^\s+((?:github\.com/jrhy|verif)/\S+)\(\)\s*$`)

func c19RacePass(runs int, seed int64) (races []raceReport, ran int, note string) {
	bin := filepath.Join(engine.Root, "bin", "vcheck-race")
	if _, err := os.Stat(bin); err != nil {
		return nil, 0, "race binary bin/vcheck-race not built; pass skipped"
	}
	type out struct {
		text string
		code int
	}
	ch := make(chan out, runs)
	sem := make(chan struct{}, engine.Workers())
	var wg sync.WaitGroup
	for i := 0; i < runs; i++ {
		wg.Add(1)
		go func(i int) {
			defer wg.Done()
			sem <- struct{}{}
			defer func() { <-sem }()
			cmd := exec.Command(bin, "racebody", fmt.Sprint(seed*1000+int64(i)))
			cmd.Env = append(os.Environ(), "GORACE=halt_on_error=0 exitcode=66", "GOMAXPROCS=4")
			b, err := cmd.CombinedOutput()
			code := 0
			if err != nil {
				code = 1
				if ee, ok := err.(*exec.ExitError); ok {
					code = ee.ExitCode()
				}
			}
			ch <- out{string(b), code}
		}(i)
	}
	wg.Wait()
	close(ch)
	seen := map[string]bool{}
	for o := range ch {
		ran++
		if strings.Contains(o.text, "WARNING: DATA RACE") {
			cls := "unknown"
			if m := reRaceFrame.FindStringSubmatch(o.text); m != nil {
				cls = m[1]
			}
			if !seen[cls] {
				seen[cls] = true
				races = append(races, raceReport{cls, engine.PanicLine(o.text) + "\n" + clip(o.text, 3000)})
			}
		} else if o.code != 0 {
			cls := "race-body-failed:" + engine.PanicLine(o.text)
			if !seen[cls] {
				seen[cls] = true
				races = append(races, raceReport{cls, clip(o.text, 2000)})
			}
		}
	}
	return races, ran, "free-running OS threads, -race build, seeded start jitter"
}

// RaceBody runs the C19 streams free-running on OS threads (entry point of the -race binary).
func RaceBody(seed int64) int {
	w := engine.NewWorld()
	w.ClockOff()
	streams := append(c19Streams(false, 3), c19Streams(true, 2)...)
	streams[3].Name, streams[4].Name = "d", "e"
	hold := w.NewClient("hold") // target of the duplicate-name attempts
	must(hold.Create(engine.TableOpts{Prefix: "hold", EPN: 4096}))
	// one connection on the lazily created in-memory bucket of the extension itself
	var wg sync.WaitGroup
	fail := make(chan string, 16)
	for i, st := range streams {
		wg.Add(1)
		go func(i int, st c19Stream) {
			defer wg.Done()
			time.Sleep(time.Duration((seed*7+int64(i)*13)%5) * 100 * time.Microsecond)
			c19Body(w, st, func(string) {}, func(string) {})
		}(i, st)
	}
	for i := 0; i < 2; i++ {
		wg.Add(1)
		go func(i int) {
			defer wg.Done()
			x := w.NewClient(fmt.Sprintf("mem%d", i))
			if err := x.Exec(fmt.Sprintf("create virtual table {T} using s3db(columns='a primary key, b', s3_prefix='mem%d')", i)); err != nil {
				fail <- "in-memory bucket open: " + err.Error()
				return
			}
			for k := 0; k < 3; k++ {
				if err := x.Exec("insert into {T} values(?,?)", k, i); err != nil {
					fail <- "in-memory insert: " + err.Error()
				}
			}
			x.Query("select * from {T}")
			x.Close()
		}(i)
	}
	wg.Wait()
	select {
	case f := <-fail:
		fmt.Println("RACEBODY-FAILED:", f)
		return 1
	default:
	}
	return 0
}

// ReplayRacePass re-runs the sampled race pass and returns the classes of the reports it saw.
func ReplayRacePass(runs int) (classes []string, ran int, note string) {
	races, ran, note := c19RacePass(runs, 1)
	for _, r := range races {
		classes = append(classes, "data-race:"+r.class)
	}
	return classes, ran, note
}
