package checks

import (
	"context"
	"encoding/json"
	"fmt"
	"sort"
	"strings"
	"time"

	"github.com/jrhy/s3db"
	crdtpub "github.com/jrhy/s3db/kv/crdt"
	v1proto "github.com/jrhy/s3db/proto/v1"

	"verif/engine"
)

// C11 — a version name denotes an immutable snapshot.
// C12 — s3db_changes reports exactly the rows that differ between two versions.
//
// Shared exploration: all event sequences up to a depth over two writers and a read-only observer
// (statements on two keys, no-op statements, refresh, merging open, read-only re-open). After every
// event the (version name, rows) of every live table is recorded.  At the end of every sequence:
//   C11: every version recorded earlier is re-read (through s3db_changes from the empty version and
//        through a read-only open restricted to those names) and must show the recorded rows; a name
//        never denotes two different row sets; names exist as objects; no-ops keep the name, changes
//        change it.
//   C12: for every earlier version A and the last version B, both directions: result ⊆ rows(B),
//        ⊇ rows(B) \ rows(A), deleted rows absent, the query succeeds.

var vOps = []string{
	"w1:insert 1", "w1:insert 2", "w1:update 1", "w1:update 2", "w1:delete 1", "w1:delete 2",
	"w2:insert 1", "w2:insert 2", "w2:update 1", "w2:delete 1",
	"w1:noop-update-absent", "w1:noop-insert-dup", "w1:noop-select", "w1:refresh", "w2:refresh",
	"merge-open", "ro:reopen", "w1:tx-insert2-update1",
	// only in the NULL-columns slice (the vMainOps events come first)
	"w1:insert-nulls 1",
}

// vMainOps is the number of events of the main alphabet (a prefix of vOps).
const vMainOps = 18

// vNullOps: a row whose non-key columns are all NULL, deleted and inserted again (its delete marker then shows
// the same column values as the new row)
var vNullOps = []string{"w1:insert-nulls 1", "w1:delete 1", "w1:update 1", "w1:insert 2", "w1:delete 2", "w1:refresh"}

type vCase struct {
	Mode string `json:"mode"` // c11 | c12
	EPN  int    `json:"epn"`
	// KeyLast declares the table as columns='b, c, a primary key'.
	KeyLast bool  `json:"keylast,omitempty"`
	First   []int `json:"first"`
	Depth   int   `json:"depth"`
	// Alpha, when set, restricts the events after First to these indices of vOps
	Alpha []int `json:"alpha,omitempty"`
}

func init() {
	All["C11"] = &Check{Level: "model_checking", Run: func(r *engine.Run) int { return vRun(r, "c11") }}
	All["C12"] = &Check{Level: "model_checking", Run: func(r *engine.Run) int { return vRun(r, "c12") }}
	engine.RegisterWorker("versions", vWorker)
	engine.RegisterWorker("c12-deadline", c12DeadlineWorker)
}

func vRun(r *engine.Run, mode string) int {
	depth := 4
	epns := []int{4096}
	if r.Thorough() {
		depth = 5
		epns = []int{2, 4096}
	}
	if mode == "c11" {
		r.Rule = "all event sequences of length 1..depth over {" + strings.Join(vOps, ", ") + "} (statements without effect prune the sequence unless they are the no-op probes); at the end every previously recorded version name is re-read two ways and compared with the rows recorded when it was taken; non-trivial = at least 2 distinct versions recorded"
	} else {
		r.Rule = "same sequences as C11; at the end, for every earlier version A and the final version B in both directions: s3db_changes(from,to) ⊆ rows(to), ⊇ rows(to) minus rows(from), no deleted row, query succeeds; thorough adds every single storage fault during the diff; non-trivial = the two versions differ"
	}
	r.Bounds["depth"] = depth
	r.Bounds["alphabet"] = vOps
	r.Bounds["entries_per_node"] = epns
	r.Assumptions = []string{"increasing write times (one logical clock)", "no vacuum in these histories (C09/C10)"}
	if r.Thorough() {
		r.SetBudget(45 * 60 * 1e9)
	}
	var cases []json.RawMessage
	for _, epn := range epns {
		d := depth
		if epn < 4096 && r.Thorough() {
			d = depth - 1 // multi-level trees one level shallower (the sequences are the same, only the tree shape differs)
		}
		for a := 0; a < vMainOps; a++ {
			for b := 0; b < vMainOps; b++ {
				cases = append(cases, engine.J(vCase{Mode: mode, EPN: epn, First: []int{a, b}, Depth: d}))
			}
			cases = append(cases, engine.J(vCase{Mode: mode, EPN: epn, First: []int{a}, Depth: 1}))
		}
	}
	// the same sequences, one level shallower, on a table whose key is the last declared column
	for a := 0; a < vMainOps; a++ {
		for b := 0; b < vMainOps; b++ {
			cases = append(cases, engine.J(vCase{Mode: mode, EPN: 4096, KeyLast: true, First: []int{a, b}, Depth: depth - 1}))
		}
	}
	r.Bounds["key_last_column_depth"] = depth - 1
	// a row whose non-key columns are all NULL, deleted and re-inserted: one event deeper over 6 events
	{
		var na []int
		for _, name := range vNullOps {
			for i, o := range vOps {
				if o == name {
					na = append(na, i)
				}
			}
		}
		for _, a := range na {
			for _, b := range na {
				cases = append(cases, engine.J(vCase{Mode: mode, EPN: 4096, First: []int{a, b}, Depth: depth + 1, Alpha: na}))
			}
		}
		r.Bounds["null_columns_slice"] = map[string]interface{}{"alphabet": vNullOps, "depth": depth + 1}
	}
	n := 0
	r.MapBudget("versions", cases, func(i int, c json.RawMessage, res *engine.Result) {
		r.Add("versions", c, res)
		n++
		if n%53 == 1 && res.Data != nil {
			r.Sample(json.RawMessage(res.Data))
		}
	})
	if mode == "c12" {
		var dc []json.RawMessage
		for i := 0; i < 16; i++ {
			dc = append(dc, engine.J(c12DeadlineCase{Shard: i, Shards: 16}))
		}
		r.Bounds["deadline_during_diff"] = "every request position of one multi-level diff; the request gets no answer until the connection's deadline (about 2 s, real time) expires"
		engine.Map("c12-deadline", dc, func(i int, c json.RawMessage, res *engine.Result) {
			r.Add("c12-deadline", c, res)
			if res.Data != nil && i == 0 {
				r.Sample(json.RawMessage(res.Data))
			}
		})
	}
	if mode == "c11" {
		// the version names under concurrency: every interleaving (request level, engine/sched.go) of an opener
		// with a committing writer / a merging open; what s3db_version() reports must reproduce what was seen
		scen := c03Scenarios()
		var sc []json.RawMessage
		var names []string
		for i, s := range scen {
			if len(s.Progs) > 2 || (s.Tier != "" && !r.Thorough()) {
				continue
			}
			if !r.Thorough() && i != 0 && i != 2 && i != 7 {
				continue // quick: S1 (reader), S3 (merging open || reader, both retire orders), S9 (reader that refreshes)
			}
			orders := 1
			if s.Retire {
				orders = 2
			}
			for o := 0; o < orders; o++ {
				sc = append(sc, engine.J(c03Case{Scen: i, Retire: o, Bound: -1, VersionOracle: true}))
			}
			names = append(names, s.Name)
		}
		r.Bounds["interleaving_scenarios"] = names
		engine.Map("c03", sc, func(i int, c json.RawMessage, res *engine.Result) {
			r.Add("c03", c, res)
			if res.Data != nil {
				var d map[string]interface{}
				json.Unmarshal(res.Data, &d)
				r.Sample(d)
			}
		})
	}
	return r.Vacuity(3, 100)
}

func vWorker(raw json.RawMessage) *engine.Result {
	var c vCase
	must(json.Unmarshal(raw, &c))
	res := &engine.Result{}
	var sample interface{}
	nAlpha := vMainOps
	if len(c.Alpha) > 0 {
		nAlpha = len(c.Alpha)
	}
	for total := len(c.First); total <= c.Depth; total++ {
		seqs(nAlpha, total-len(c.First), func(tailOps []int) {
			ops := append([]int{}, c.First...)
			for _, t := range tailOps {
				if len(c.Alpha) > 0 {
					t = c.Alpha[t]
				}
				ops = append(ops, t)
			}
			s := vRunSeq(res, c, ops)
			if s != nil && sample == nil {
				sample = s
			}
		})
		if len(c.First) == 1 {
			break
		}
	}
	if sample != nil {
		res.Data = engine.J(sample)
	}
	return res
}

type vRec struct {
	ver  string
	rows engine.Rows
	step int
}

// openOnly opens the table restricted to the given version names (read-only) and returns its visible rows.
func openOnly(w *engine.World, epn int, names []string) (engine.Rows, error) {
	opts := s3db.S3Options{Bucket: "bk", Endpoint: engine.EndpointScheme + "only", Prefix: "p", EntriesPerNode: epn, ReadOnly: true, OnlyVersions: names}
	w.Handle("only")
	kvt, err := s3db.OpenKV(context.Background(), opts, "s3db-rows")
	if err != nil {
		return nil, err
	}
	ctx := context.Background()
	cur, err := kvt.Root.Cursor(ctx)
	if err != nil {
		return nil, err
	}
	out := engine.Rows{}
	if kvt.Root.Size() == 0 {
		return out, nil
	}
	if err := cur.Min(ctx); err != nil {
		return nil, err
	}
	for {
		k, v, ok := cur.Get()
		if !ok {
			break
		}
		out = appendVisible(out, k.(*s3db.Key), v)
		if err := cur.Forward(ctx); err != nil {
			return nil, err
		}
	}
	return out, nil
}

func appendVisible(out engine.Rows, k *s3db.Key, v *crdtpub.Value) engine.Rows {
	row, _ := v.Value.(*v1proto.Row)
	if v.Tombstoned() || row == nil || row.Deleted {
		return out
	}
	parts := []string{engine.Render(k.Value())}
	for _, col := range []string{"b", "c"} {
		if cv, ok := row.ColumnValues[col]; ok {
			parts = append(parts, engine.Render(s3db.FromSQLiteValue(cv.Value)))
		} else {
			parts = append(parts, "NULL")
		}
	}
	return append(out, strings.Join(parts, "|"))
}

func vRunSeq(res *engine.Result, c vCase, ops []int) interface{} {
	names := make([]string, len(ops))
	for i, o := range ops {
		names[i] = vOps[o]
	}
	where := fmt.Sprintf("epn=%d ops=%v", c.EPN, names)
	feat := ""
	if c.EPN < 4096 {
		feat = "|multi-level"
	}
	viol := func(class, f string, a ...interface{}) { res.Violate(class+feat, f+" ["+where+"]", a...) }
	w := engine.NewWorld()
	defer w.Close()
	clock := 1000
	w.SetClock(engine.T(clock))
	opts := engine.TableOpts{EPN: c.EPN}
	if c.KeyLast {
		opts.Columns = "b, c, a primary key"
		feat += "|key-not-first"
	}
	cl := map[string]*engine.Client{}
	for _, n := range []string{"w1", "w2"} {
		x := w.NewClient(n)
		must(x.Create(opts))
		cl[n] = x
	}
	roOpts := opts
	roOpts.ReadOnly = true
	ro := w.NewClient("ro")
	must(ro.Create(roOpts))
	cl["ro"] = ro
	if c.EPN < 4096 {
		// filler rows so that the tree is multi-level
		must(cl["w1"].Exec("begin"))
		for i := 101; i <= 108; i++ {
			must(cl["w1"].Exec("insert into {T}(a,b,c) values(?,?,?)", i, "f", i))
		}
		must(cl["w1"].Exec("commit"))
		must(cl["w2"].Refresh())
		must(ro.Refresh())
	}
	if c.Mode == "c07" {
		// a committed row with a smaller key (for epn 4096; the filler rows above have larger keys): the tested
		// keys 1 and 2 then land between / after existing keys, also on their first INSERT
		must(cl["w1"].Exec("insert into {T}(a,b,c) values(0,'p',0)"))
		must(cl["w2"].Refresh())
		must(ro.Refresh())
	}
	var recs []vRec
	byVer := map[string]engine.Rows{}
	record := func(step int) bool {
		for _, n := range []string{"w1", "w2", "ro"} {
			x := cl[n]
			v, err := x.Version()
			if err != nil {
				viol("version-failed", "s3db_version on %s failed: %v", n, err)
				return false
			}
			rows, err := x.Query(selAll)
			if err != nil {
				viol("select-failed", "select on %s failed: %v", n, err)
				return false
			}
			if old, ok := byVer[v]; ok {
				if !old.Equal(rows) {
					viol("version-name-denotes-two-states", "version %s showed %v earlier and shows %v now on %s", v, old, rows, n)
					return false
				}
				continue
			}
			byVer[v] = rows
			recs = append(recs, vRec{v, rows, step})
		}
		return true
	}
	if !record(-1) {
		return nil
	}
	for step, o := range ops {
		op := vOps[o]
		clock += 100
		w.SetClock(engine.T(clock))
		who := strings.SplitN(op, ":", 2)[0]
		x := cl[who]
		var before string
		var rowsBefore engine.Rows
		if x != nil {
			before, _ = x.Version()
			rowsBefore, _ = x.Query(selAll)
		}
		effect := true
		// C07 mode: the outcome of a statement agrees with the rows this very connection shows (an INSERT of a
		// key it can see is a constraint failure, of one it cannot see succeeds; UPDATE / DELETE hit one row
		// exactly when the key is visible), whoever wrote the row and however it came into view
		sees := func(k string) bool {
			for _, r := range rowsBefore {
				if strings.HasPrefix(r, "i"+k+"|") {
					return true
				}
			}
			return false
		}
		outcome := func(kind, k string, n int64, err error) {
			if c.Mode != "c07" {
				return
			}
			vis := sees(k)
			switch {
			case kind == "insert" && vis && engine.ErrClass(err) != "pk":
				viol("insert-of-visible-key-not-refused", "%s: key %s is visible on %s (%v), the INSERT gave n=%d err=%v", op, k, who, rowsBefore, n, err)
			case kind == "insert" && !vis && (err != nil || n != 1):
				viol("insert-of-absent-key-failed", "%s: key %s is not visible on %s (%v), the INSERT gave n=%d err=%v", op, k, who, rowsBefore, n, err)
			case kind != "insert" && (err != nil || (n == 1) != vis):
				viol(kind+"-outcome-disagrees-with-visible-rows", "%s: key %s visible on %s: %v (%v), the statement gave n=%d err=%v", op, k, who, vis, rowsBefore, n, err)
			}
		}
		switch strings.SplitN(op, ":", 2)[len(strings.SplitN(op, ":", 2))-1] {
		case "insert-nulls 1":
			n, err := x.Affected("insert into {T}(a) values(1)")
			effect = err == nil && n == 1
		case "insert 1", "insert 2":
			k := op[len(op)-1:]
			n, err := x.Affected(fmt.Sprintf("insert into {T}(a,b,c) values(%s,'i%d',%d)", k, step, step))
			outcome("insert", k, n, err)
			effect = err == nil && n == 1
		case "update 1", "update 2":
			k := op[len(op)-1:]
			n, err := x.Affected(fmt.Sprintf("update {T} set b='u%d' where a=%s", step, k))
			outcome("update", k, n, err)
			effect = err == nil && n == 1
		case "delete 1", "delete 2":
			k := op[len(op)-1:]
			n, err := x.Affected(fmt.Sprintf("delete from {T} where a=%s", k))
			outcome("delete", k, n, err)
			effect = err == nil && n == 1
		case "tx-insert2-update1":
			must(x.Exec("begin"))
			n1, e1 := x.Affected(fmt.Sprintf("insert into {T}(a,b,c) values(2,'t%d',%d)", step, step))
			n2, e2 := x.Affected(fmt.Sprintf("update {T} set c='t%d' where a=1", step))
			if err := x.Exec("commit"); err != nil {
				viol("commit-failed", "%v", err)
				return nil
			}
			effect = (e1 == nil && n1 == 1) && (e2 == nil && n2 == 1)
		case "noop-update-absent":
			x.Exec("update {T} set b='zz' where a=99")
		case "noop-insert-dup":
			if len(rowsBefore) == 0 {
				return nil
			}
			k := strings.TrimPrefix(strings.SplitN(rowsBefore[0], "|", 2)[0], "i")
			if err := x.Exec("insert into {T}(a,b,c) values(" + k + ",'dup',0)"); err == nil {
				viol("duplicate-insert-accepted", "duplicate insert of key %s accepted", k)
			}
		case "noop-select":
			x.Query("select count(*), max(b) from {T} where a>=1")
		case "refresh":
			heads, _ := engine.Versions(w.B.Snapshot(), engine.TableLayout("p"))
			if err := x.Refresh(); err != nil {
				viol("refresh-failed", "%v", err)
				return nil
			}
			after, _ := x.Version()
			hj, _ := json.Marshal(heads)
			if len(heads) == 0 {
				hj = []byte("[]")
			}
			if string(hj) == before && after != before {
				viol("refresh-without-news-changes-version", "refresh with nothing new changed s3db_version from %s to %s", before, after)
			}
			op = "refresh"
		case "merge-open":
			heads, _ := engine.Versions(w.B.Snapshot(), engine.TableLayout("p"))
			if len(heads) < 2 {
				return nil
			}
			m := w.NewClient(fmt.Sprintf("m%d", step))
			if err := m.Create(opts); err != nil {
				viol("merge-open-failed", "%v", err)
				return nil
			}
			m.Close()
		case "reopen":
			ro.Close()
			ro = w.NewClient("ro")
			if err := ro.Create(roOpts); err != nil {
				viol("ro-open-failed", "%v", err)
				return nil
			}
			cl["ro"] = ro
		}
		res.Trans++
		isStmt := strings.Contains(op, "insert ") || strings.Contains(op, "update ") || strings.Contains(op, "delete ") || strings.Contains(op, "tx-")
		if isStmt && !strings.Contains(op, "noop") {
			if !effect {
				return nil // statement without effect: the sequence is equivalent to a shorter one
			}
			after, _ := x.Version()
			rowsAfter, _ := x.Query(selAll)
			if !rowsAfter.Equal(rowsBefore) && after == before {
				viol("version-unchanged-by-change", "committed rows changed (%v -> %v) but s3db_version stayed %s", rowsBefore, rowsAfter, before)
			}
		}
		if strings.Contains(op, "noop") {
			after, _ := x.Version()
			if after != before {
				viol("noop-changes-version:"+strings.SplitN(op, ":", 2)[1], "a statement that changes nothing changed s3db_version from %s to %s", before, after)
			}
		}
		if !record(step) {
			return nil
		}
	}
	res.Execs++
	if len(recs) >= 2 {
		res.NontrivN++
	}
	res.Outcomes = append(res.Outcomes, fmt.Sprintf("versions=%d", len(recs)))
	objs := w.B.Snapshot()
	lay := engine.TableLayout("p")
	w1 := cl["w1"]
	last := recs[len(recs)-1]
	changes := func(from, to string) (engine.Rows, error) {
		name := fmt.Sprintf("{T}_chg%d", res.Trans)
		res.Trans++
		if err := w1.Exec("create virtual table " + name + " using s3db_changes(table='{T}', from='" + from + "', to='" + to + "')"); err != nil {
			return nil, fmt.Errorf("create: %w", err)
		}
		defer w1.Exec("drop table " + name)
		return w1.Query("select a,b,c from " + name + " order by a")
	}
	if c.Mode == "c07" {
		res.Execs++
		return map[string]interface{}{"kind": "statement outcomes vs visible rows", "ops": names}
	}
	if c.Mode == "c11" {
		for _, rec := range recs {
			var vs []string
			if err := json.Unmarshal([]byte(rec.ver), &vs); err != nil {
				viol("version-not-json", "s3db_version returned %q", rec.ver)
				continue
			}
			for _, n := range vs {
				_, okc := objs[lay.Current()+n]
				_, okm := objs[lay.Merged()+n]
				if !okc && !okm {
					viol("version-name-without-object", "version %s (taken at step %d) names %s, which is neither under root/current nor root/merged", rec.ver, rec.step, n)
				}
			}
			got, err := changes("[]", rec.ver)
			if err != nil {
				viol("version-unreadable-via-changes", "re-reading version %s (step %d) through s3db_changes failed: %v", rec.ver, rec.step, err)
			} else if !got.Equal(rec.rows) {
				viol("snapshot-changed-via-changes", "version %s showed %v when taken at step %d, s3db_changes(from=[],to=it) now shows %v", rec.ver, rec.rows, rec.step, got)
			}
			got2, err := openOnly(w, c.EPN, vs)
			if err != nil {
				viol("version-unreadable-via-open", "read-only open restricted to %s failed: %v", rec.ver, err)
			} else if !got2.Equal(rec.rows) {
				viol("snapshot-changed-via-open", "version %s showed %v when taken at step %d, a read-only open restricted to it now shows %v", rec.ver, rec.rows, rec.step, got2)
			}
		}
		res.States = append(res.States, strings.Join(last.rows, ";"))
		return map[string]interface{}{"ops": names, "versions": len(recs), "last": last.ver, "rows": last.rows}
	}
	// C12
	inRows := func(r string, rows engine.Rows) bool {
		for _, x := range rows {
			if x == r {
				return true
			}
		}
		return false
	}
	checkPair := func(a, b vRec) {
		got, err := changes(a.ver, b.ver)
		if err != nil {
			del := "no-deletes"
			for _, r := range a.rows {
				key := strings.SplitN(r, "|", 2)[0]
				found := false
				for _, q := range b.rows {
					if strings.HasPrefix(q, key+"|") {
						found = true
					}
				}
				if !found {
					del = "row-deleted-between"
				}
			}
			viol("changes-query-failed:"+del, "s3db_changes(from=%s, to=%s) failed: %v (from shows %v, to shows %v)", a.ver, b.ver, err, a.rows, b.rows)
			return
		}
		for _, r := range got {
			if !inRows(r, b.rows) {
				viol("changes-row-not-in-to", "s3db_changes(from=%s, to=%s) returned %s which is not a row of 'to' %v", a.ver, b.ver, r, b.rows)
			}
		}
		for _, r := range b.rows {
			if !inRows(r, a.rows) && !inRows(r, got) {
				viol("changes-misses-row", "s3db_changes(from=%s, to=%s) = %v misses %s (from shows %v, to shows %v)", a.ver, b.ver, got, r, a.rows, b.rows)
			}
		}
		if !a.rows.Equal(b.rows) {
			res.NontrivN++
		}
	}
	for _, rec := range recs[:len(recs)-1] {
		checkPair(rec, last)
		checkPair(last, rec)
	}
	// every single storage fault during one diff: an error or the complete answer, never a partial one
	if len(recs) >= 2 {
		a, b := recs[0], last
		want, err := changes(a.ver, b.ver)
		if err == nil {
			mark := w.B.LogLen()
			changes(a.ver, b.ver)
			nreq := len(w.B.LogSince(mark))
			for k := 0; k < nreq; k++ {
				for _, kind := range []string{"transport", "aws500", "ctx", "nosuchkey"} {
					count := -1
					w1.H.Fault = func(rq *engine.Req) (engine.FaultMode, error) {
						count++
						if count != k {
							return engine.FaultNone, nil
						}
						switch kind {
						case "nosuchkey":
							// a well-formed "no such object" answer for a NODE of a version asked for by name (a vacuumed or
							// lost object): that part of the version cannot be read
							if rq.Op == "GET" && strings.Contains(rq.Key, "/node/") {
								return engine.FaultNoSuchKey, nil
							}
							return engine.FaultNone, nil
						case "aws500":
							return engine.FailBefore, engine.ErrAWS500()
						case "ctx":
							return engine.FailBefore, engine.ErrCtx()
						}
						return engine.FailBefore, engine.ErrTransport
					}
					got, gerr := changes(a.ver, b.ver)
					w1.H.Fault = nil
					res.Execs++
					if gerr == nil && !got.Equal(want) {
						viol("changes-partial-answer-on-fault:"+kind, "with request #%d of the diff failing (%s) s3db_changes(from=%s,to=%s) returned %v without an error; the complete answer is %v", k, kind, a.ver, b.ver, got, want)
					}
					if gerr != nil {
						res.Outcomes = append(res.Outcomes, "fault-surfaced")
					} else {
						res.Outcomes = append(res.Outcomes, "fault-masked-complete")
					}
				}
			}
		}
	}
	checkPair(last, last)
	res.States = append(res.States, strings.Join(last.rows, ";"))
	sort.Strings(res.States)
	return map[string]interface{}{"ops": names, "versions": len(recs), "pairs_checked": 2*len(recs) - 1}
}

// ---- C12: a request of the diff that gets no answer before the connection's own deadline -----------------------
//
// One diff over a multi-level table (entries_per_node=2, two versions that differ in several subtrees). For every
// request position k of the diff: s3db_conn.deadline is set about 2 s ahead (real time: the context of a
// connection is a real context), request k gets no answer until that context is done, everything else answers at
// once. The query must fail or return the complete answer. The wait is what makes the connection's own context
// expire in the middle of the walk; an injected "cancelled" error alone does not do that.

type c12DeadlineCase struct {
	Shard, Shards int
}

func c12DeadlineWorker(raw json.RawMessage) *engine.Result {
	var c c12DeadlineCase
	must(json.Unmarshal(raw, &c))
	res := &engine.Result{}
	w := engine.NewWorld()
	defer w.Close()
	w.SetClock(engine.T(1000))
	w1 := w.NewClient("w1")
	must(w1.Create(engine.TableOpts{EPN: 2}))
	must(w1.Exec("begin"))
	for i := 1; i <= 14; i++ {
		must(w1.Exec("insert into {T}(a,b,c) values(?,?,?)", i, "a", i))
	}
	must(w1.Exec("commit"))
	va, err := w1.Version()
	must(err)
	w.SetClock(engine.T(2000))
	must(w1.Exec("begin"))
	for _, i := range []int{2, 7, 13} {
		must(w1.Exec("update {T} set b='changed' where a=?", i))
	}
	for i := 15; i <= 20; i++ {
		must(w1.Exec("insert into {T}(a,b,c) values(?,?,?)", i, "b", i))
	}
	must(w1.Exec("delete from {T} where a=5"))
	must(w1.Exec("commit"))
	vb, err := w1.Version()
	must(err)
	n := 0
	changes := func() (engine.Rows, error) {
		n++
		name := fmt.Sprintf("{T}_dl%d", n)
		if err := w1.Exec("create virtual table " + name + " using s3db_changes(table='{T}', from='" + va + "', to='" + vb + "')"); err != nil {
			return nil, fmt.Errorf("create: %w", err)
		}
		defer w1.Exec("drop table " + name)
		return w1.Query("select a,b,c from " + name + " order by a")
	}
	want, err := changes()
	if err != nil || len(want) != 9 {
		res.Violate("changes-failed", "fault-free s3db_changes gives %v (err %v), 9 rows expected", want, err)
		return res
	}
	mark := w.B.LogLen()
	changes()
	nreq := len(w.B.LogSince(mark))
	for k := c.Shard; k < nreq; k += c.Shards {
		count := -1
		fired := ""
		w1.H.Fault = func(rq *engine.Req) (engine.FaultMode, error) {
			count++
			if count != k {
				return engine.FaultNone, nil
			}
			fired = rq.String()
			return engine.FaultHang, nil
		}
		// second resolution: between 1 and 2 s ahead
		dl := time.Now().UTC().Add(2 * time.Second).Format("2006-01-02 15:04:05")
		must(w1.Exec("update s3db_conn set deadline=?", dl))
		got, gerr := changes()
		w1.H.Fault = nil
		must(w1.Exec("update s3db_conn set deadline=NULL"))
		res.Execs++
		res.Trans++
		if fired == "" {
			continue
		}
		res.NontrivN++
		if gerr == nil && !got.Equal(want) {
			res.Violate("changes-partial-answer-on-fault:deadline", "request #%d of the diff (%s) got no answer before the connection's deadline; s3db_changes returned %d of %d rows WITHOUT an error: %v", k, fired, len(got), len(want), got)
		}
		if gerr != nil {
			res.Outcomes = append(res.Outcomes, "deadline-surfaced")
		} else {
			res.Outcomes = append(res.Outcomes, "deadline-masked-complete")
		}
		// the connection works again once the deadline is cleared
		if again, err := changes(); err != nil || !again.Equal(want) {
			res.Violate("changes-broken-after-deadline", "after the deadline was cleared s3db_changes gives %v (err %v)", again, err)
		}
	}
	res.Data = engine.J(map[string]interface{}{"kind": "deadline during the diff", "requests_of_the_diff": nreq, "shard": c.Shard})
	return res
}
