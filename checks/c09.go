package checks

import (
	"encoding/json"
	"fmt"
	"sort"
	"strings"
	"time"

	"verif/engine"
)

// C09 — vacuum never changes what the table contains.
// C10 — vacuum reclaims exactly what the cutoff allows.
//
// Shared exploration: all event sequences up to a depth (statements on two keys by a writer w1, a stale
// second writer w2, reconnects, refreshes, merging opens, earlier vacuums) on a logical clock that ticks
// 10 s per event, followed by s3db_vacuum on w1 with EVERY cutoff of the form (event time - 1 s, event
// time, event time + 1 s).  Oracles after the final vacuum, see below.

var gOps = []string{
	"w1:insert 1", "w1:insert 2", "w1:update 1", "w1:delete 1", "w1:delete 2",
	"w1:delete 1 with-older-write-time", // write_time 15 s in the past: between the two previous events
	"w1:reconnect", "w1:refresh",
	"w2:insert 2", "w2:insert 3", "w2:refresh",
	"merge-open", "w1:vacuum-mid", "w1:vacuum-all",
	// only in the "ancient write times" slice (gMainOps events come first): row times far older than every version,
	// so that a cutoff can lie AFTER a delete and BEFORE every version's creation time (a vacuum that purges the
	// marker without removing history; the table returns to byte-identical earlier contents)
	"w1:insert 2 with-ancient-write-time", "w1:delete 2 with-ancient-write-time", "w1:vacuum-before-all-versions",
	"w2:insert 2 with-ancient-write-time", "w2:delete 2 with-ancient-write-time",
}

// gReplayOps: a second writer (with its own node cache) writes, deletes and - after the first writer vacuumed and
// it refreshed - REPLAYS a row with a fixed write time, which re-creates earlier nodes byte for byte
var gReplayOps = []string{"w2:insert 2 with-ancient-write-time", "w2:delete 2 with-ancient-write-time", "w2:refresh", "w1:refresh", "w1:vacuum-all"}

// gMainOps is the number of events of the main alphabet (a prefix of gOps).
const gMainOps = 14

// gAncientOps is the alphabet of the ancient-write-times slice.
var gAncientOps = []string{"w1:insert 1", "w1:insert 2 with-ancient-write-time", "w1:delete 2 with-ancient-write-time", "w1:vacuum-before-all-versions", "w1:vacuum-all", "w1:reconnect"}

type gCase struct {
	Mode  string `json:"mode"` // c09 | c10
	EPN   int    `json:"epn"`
	Cache int    `json:"cache,omitempty"`
	First []int  `json:"first"`
	Depth int    `json:"depth"`
	// Faults (C09 only): 1 = after the fault-free run with the latest cutoff, 2 = after every fault-free run that
	// deleted something: the final vacuum is run again with each single one of its requests failing (before
	// taking effect; for DELETE and PUT also after taking effect); the connection is then used on, unrefreshed
	Faults int `json:"faults,omitempty"`
	// Alpha, when set, restricts the events after First to these indices of gOps, and the case to sequences of
	// exactly Depth events (the deeper slice over a smaller alphabet)
	Alpha []int `json:"alpha,omitempty"`
}

// gDeepOps is the alphabet of the deeper slice: the events that change what a later vacuum finds (a table that
// returns to earlier or empty contents, an earlier vacuum, a second writer with equal or different rows, a merge).
var gDeepOps = []string{"w1:insert 1", "w1:delete 1", "w1:insert 2", "w1:vacuum-all", "w2:insert 2", "merge-open"}

// gFault selects the failing request of the final vacuum.
type gFault struct {
	Idx      int  // index among the vacuuming handle's requests during the vacuum
	Applied  bool // the request takes effect, only the answer is an error
	Desc     bool // vacuum deletes its objects in descending instead of ascending name order (hook H9)
	AltFresh engine.Rows
}

// set by the fault-free run of gRunSeq for the worker (a worker runs one sequence at a time)
var (
	gVacuumReqs []engine.Req
	gPostFresh  engine.Rows
	gDeleted    int
)

func init() {
	All["C09"] = &Check{Level: "model_checking", Run: func(r *engine.Run) int { return gRun(r, "c09") }}
	All["C10"] = &Check{Level: "model_checking", Run: func(r *engine.Run) int { return gRun(r, "c10") }}
	engine.RegisterWorker("vacuum", gWorker)
}

func gRun(r *engine.Run, mode string) int {
	depth := 3
	epns := []int{2, 4096}
	if r.Thorough() {
		depth = 4
	}
	if mode == "c09" {
		r.Rule = "all event sequences of length 1..depth over {" + strings.Join(gOps, ", ") + "} (statements without effect prune) x entries_per_node {2,4096}, each followed by s3db_vacuum on w1 with every cutoff in {event time -1s, exact, +1s}; oracles: rows of the vacuuming connection (full, point, descending) unchanged; a fresh reader and a fresh read-write connection see what a fresh reader saw before (differences only for keys whose delete marker the cutoff reclaims); every version created at/after the cutoff or still under root/current re-opens with its recorded rows; every version object still present has all objects it reaches; the table stays writable. Non-trivial = the vacuum deleted at least one object"
	} else {
		r.Rule = "same sequences and cutoffs as C09; oracles: no entry deleted before the cutoff remains in the current version; entries deleted at/after it keep their marker and still beat an older late-arriving write merged afterwards; ancestors all of whose successors were created strictly before the cutoff are gone, and objects only they reached are gone; repeating the vacuum leaves the bucket byte-identical. Non-trivial = the vacuum deleted at least one object"
	}
	r.Bounds["depth"] = depth
	r.Bounds["alphabet"] = gOps
	r.Bounds["entries_per_node"] = epns
	r.Assumptions = []string{"version creation time = logical clock at the opening of the committing connection", "second resolution cutoffs (what the SQL function accepts)", "where the statement is silent (successor created exactly at the cutoff, successors on both sides) either outcome is accepted"}
	if r.Thorough() && mode != "c09" {
		r.SetBudget(45 * 60 * 1e9)
	}
	var cases []json.RawMessage
	faults := 0
	if mode == "c09" {
		faults = 1
		if r.Thorough() {
			faults = 2
		}
		r.Bounds["vacuum_fault_pass"] = map[string]string{"quick": "latest cutoff", "thorough": "every cutoff whose vacuum deletes something"}[r.Tier]
	}
	type cfg struct{ epn, cache int }
	cfgs := []cfg{{2, 0}, {4096, 0}, {2, 100}}
	r.Bounds["node_cache_entries"] = []int{0, 100}
	_ = epns
	for _, cf := range cfgs {
		for a := 0; a < gMainOps; a++ {
			for b := 0; b < gMainOps; b++ {
				cases = append(cases, engine.J(gCase{Mode: mode, EPN: cf.epn, Cache: cf.cache, First: []int{a, b}, Depth: depth, Faults: faults}))
			}
			cases = append(cases, engine.J(gCase{Mode: mode, EPN: cf.epn, Cache: cf.cache, First: []int{a}, Depth: 1, Faults: faults}))
		}
	}
	// the deeper slice: one more event over the smaller alphabet gDeepOps
	var deep []int
	for _, name := range gDeepOps {
		for i, o := range gOps {
			if o == name {
				deep = append(deep, i)
			}
		}
	}
	r.Bounds["deeper_slice"] = map[string]interface{}{"alphabet": gDeepOps, "depth": depth + 1}
	for _, cf := range cfgs {
		for _, a := range deep {
			for _, b := range deep {
				cases = append(cases, engine.J(gCase{Mode: mode, EPN: cf.epn, Cache: cf.cache, First: []int{a, b}, Depth: depth + 1, Alpha: deep}))
			}
		}
	}
	// the ancient-write-times slice, same depth as the deeper slice
	var anc []int
	for _, name := range gAncientOps {
		for i, o := range gOps {
			if o == name {
				anc = append(anc, i)
			}
		}
	}
	r.Bounds["ancient_write_times_slice"] = map[string]interface{}{"alphabet": gAncientOps, "depth": depth + 1}
	// the replay slice: node-cache configuration only, three events deeper over 5 events (most sequences end early:
	// a replay is only meaningful after delete, vacuum and refresh)
	var rp []int
	for _, name := range gReplayOps {
		for i, o := range gOps {
			if o == name {
				rp = append(rp, i)
			}
		}
	}
	r.Bounds["replay_slice"] = map[string]interface{}{"alphabet": gReplayOps, "depth": depth + 3, "node_cache_entries": 100}
	for _, a := range rp {
		for _, b := range rp {
			if mode != "c09" {
				break // its oracle (a commit never publishes a version with missing objects) is C09's
			}
			cases = append(cases, engine.J(gCase{Mode: mode, EPN: 4096, Cache: 100, First: []int{a, b}, Depth: depth + 3, Alpha: rp}))
		}
	}
	for _, cf := range cfgs {
		for _, a := range anc {
			for _, b := range anc {
				cases = append(cases, engine.J(gCase{Mode: mode, EPN: cf.epn, Cache: cf.cache, First: []int{a, b}, Depth: depth + 1, Alpha: anc}))
			}
		}
	}
	n := 0
	collect := func(i int, c json.RawMessage, res *engine.Result) {
		r.Add("vacuum", c, res)
		n++
		if n%31 == 1 && res.Data != nil {
			r.Sample(json.RawMessage(res.Data))
		}
	}
	if mode == "c09" && r.Thorough() {
		// Phase A: the whole sequence x cutoff space with the fault pass after the latest cutoff only; this
		// completes. Phase B: the same cases with the fault pass after EVERY cutoff whose vacuum deletes something,
		// shallow cases first, as far as the budget goes (it multiplies the work by the number of requests of
		// every vacuum); what it does not reach is reported, the fault-free oracles are complete either way.
		var phaseA []json.RawMessage
		for _, c := range cases {
			var gc gCase
			must(json.Unmarshal(c, &gc))
			gc.Faults = 1
			phaseA = append(phaseA, engine.J(gc))
		}
		engine.Map("vacuum", phaseA, collect)
		r.Extra["phase_A_complete"] = "all sequences x all cutoffs, fault pass after the latest cutoff"
		r.SetBudgetFromNow(30 * 60 * 1e9)
		sort.SliceStable(cases, func(i, j int) bool {
			var a, b gCase
			json.Unmarshal(cases[i], &a)
			json.Unmarshal(cases[j], &b)
			return a.Depth < b.Depth
		})
		r.MapBudget("vacuum", cases, collect)
		return r.Vacuity(2, 50)
	}
	r.MapBudget("vacuum", cases, collect)
	return r.Vacuity(2, 50)
}

func gWorker(raw json.RawMessage) *engine.Result {
	var c gCase
	must(json.Unmarshal(raw, &c))
	res := &engine.Result{}
	var sample interface{}
	nAlpha := gMainOps
	if len(c.Alpha) > 0 {
		nAlpha = len(c.Alpha)
	}
	for total := len(c.First); total <= c.Depth; total++ {
		if len(c.Alpha) > 0 && total != c.Depth {
			continue
		}
		seqs(nAlpha, total-len(c.First), func(tailOps []int) {
			ops := append([]int{}, c.First...)
			for _, t := range tailOps {
				if len(c.Alpha) > 0 {
					t = c.Alpha[t]
				}
				ops = append(ops, t)
			}
			// the final vacuum: every cutoff relative to every event time
			ncut := 3 * (len(ops) + 2)
			for ci := 0; ci < ncut; ci++ {
				gVacuumReqs, gDeleted = nil, 0
				violsBefore := len(res.Viol)
				s, ok := gRunSeq(res, c, ops, ci, nil)
				if !ok {
					break
				}
				if s != nil && sample == nil {
					sample = s
				}
				if c.Mode != "c09" || c.Faults == 0 || gDeleted == 0 || (c.Faults == 1 && ci != ncut-1) {
					continue
				}
				if len(res.Viol) > violsBefore {
					continue // the fault-free vacuum already violates the property here (reported); faults add nothing
				}
				reqs, alt := gVacuumReqs, gPostFresh
				for j, rq := range reqs {
					gRunSeq(res, c, ops, ci, &gFault{Idx: j, AltFresh: alt})
					if rq.Op == "DELETE" || rq.Op == "PUT" {
						gRunSeq(res, c, ops, ci, &gFault{Idx: j, Applied: true, AltFresh: alt})
					}
					if rq.Op == "DELETE" {
						// the objects are deleted in map order in production: the opposite order as well
						gRunSeq(res, c, ops, ci, &gFault{Idx: j, Desc: true, AltFresh: alt})
						gRunSeq(res, c, ops, ci, &gFault{Idx: j, Desc: true, Applied: true, AltFresh: alt})
					}
				}
			}
		})
		if len(c.First) == 1 {
			break
		}
	}
	if sample != nil {
		res.Data = engine.J(sample)
	}
	return res
}

type gModelRow struct {
	live    bool
	b, c    string
	delTime time.Time
	insTime time.Time
}

// gRunSeq runs the events, then vacuum number ci. ok=false when the sequence is pruned (no need to try
// further cutoffs).
func gRunSeq(res *engine.Result, c gCase, ops []int, ci int, flt *gFault) (interface{}, bool) {
	names := make([]string, len(ops))
	for i, o := range ops {
		names[i] = gOps[o]
	}
	feat := ""
	if c.EPN < 4096 {
		feat = "|multi-level"
	}
	if c.Cache > 0 {
		feat += "|cache>0"
	}
	w := engine.NewWorld()
	defer w.Close()
	w.FrozenClock = true // one time per event: version creation times are whole seconds, like the cutoffs
	lay := engine.TableLayout("p")
	opts := engine.TableOpts{EPN: c.EPN, Cache: c.Cache}
	tick := 0
	now := func() time.Time { return engine.T(1000 + 10*tick) }
	var evTimes []time.Time
	advance := func() {
		tick++
		w.SetClock(now())
		evTimes = append(evTimes, now())
	}
	advance()
	w1 := w.NewClient("w1")
	must(w1.Create(opts))
	w2 := w.NewClient("w2")
	must(w2.Create(opts))
	if c.EPN < 4096 {
		must(w1.Exec("begin"))
		for i := 101; i <= 108; i++ {
			must(w1.Exec("insert into {T} values(?,?,?)", i, "f", "f"))
		}
		must(w1.Exec("commit"))
	}
	// versions that a vacuum earlier in this history removed (legitimately: that vacuum was itself the final,
	// fully checked vacuum of the shorter history). A stale writer's retire step may write such a version object
	// again under root/merged/; it is not a retained version.
	sawVacuum := map[string]bool{} // writer has refreshed / reconnected since the last vacuum (or ran it)
	vacuumedEarlier := map[string]bool{}
	model := map[int]*gModelRow{} // global (all committed statements), single monotone clock
	reclaimed := map[int]bool{}   // keys whose delete marker an (earlier) vacuum has legitimately reclaimed
	type rec struct {
		rows    engine.Rows
		created time.Time
	}
	recorded := map[string]rec{} // version name (single) -> rows
	record := func(cl *engine.Client, created time.Time) {
		v, err := cl.Version()
		if err != nil {
			return
		}
		var ns []string
		if json.Unmarshal([]byte(v), &ns) != nil || len(ns) != 1 {
			return
		}
		rows, err := cl.Query(selAll)
		if err != nil {
			return
		}
		if _, ok := recorded[ns[0]]; !ok {
			recorded[ns[0]] = rec{rows, created}
		}
	}
	created := map[string]time.Time{"w1": now(), "w2": now()}
	var where string
	viol := func(prop, class, f string, a ...interface{}) {
		if prop == c.Mode {
			res.Violate(class+feat, f+" ["+where+"]", a...)
		}
	}
	where = fmt.Sprintf("epn=%d cache=%d ops=%v", c.EPN, c.Cache, names)
	vacuumOK := func(cl *engine.Client, cut time.Time) bool {
		// which delete markers does the vacuuming connection hold? (those older than the cutoff are reclaimed)
		held := map[int]bool{}
		if d, err := engine.LiveDump(cl.Tab); err == nil {
			for _, e := range d.Entries {
				if e.Deleted {
					var k int
					fmt.Sscanf(e.Key, "i%d", &k)
					held[k] = true
				}
			}
		}
		c0, m0 := engine.Versions(w.B.Snapshot(), lay)
		rows0, rerr0 := cl.Query(selAll)
		verr, err := cl.Vacuum(cut)
		if err != nil || verr != "" {
			viol("c09", "vacuum-failed", "s3db_vacuum(%s) failed: %v %s", engine.TS(cut), err, verr)
			return false
		}
		// the core oracle at EVERY vacuum of the history, not only the final one: the vacuuming connection shows
		// the same rows. A violation ends the sequence here, so its consequences do not turn up under other names.
		if rows1, rerr1 := cl.Query(selAll); rerr0 == nil && (rerr1 != nil || !rows1.Equal(rows0)) {
			viol("c09", "vacuuming-connection-rows-changed", "rows on the vacuuming connection: before %v, after %v (err %v) [vacuum with cutoff %s in the middle of the history]", rows0, rows1, rerr1, cut.Format("15:04:05"))
			return false
		}
		c1, m1 := engine.Versions(w.B.Snapshot(), lay)
		still := map[string]bool{}
		for _, n := range append(append([]string{}, c1...), m1...) {
			still[n] = true
		}
		for _, n := range append(append([]string{}, c0...), m0...) {
			if !still[n] {
				vacuumedEarlier[n] = true
			}
		}
		for k, m := range model {
			if !m.live && m.delTime.Before(cut) && held[k] {
				reclaimed[k] = true
			}
		}
		sawVacuum = map[string]bool{"w1": true}
		return true
	}
	for step, o := range ops {
		op := gOps[o]
		advance()
		who := strings.SplitN(op, ":", 2)[0]
		cl := w1
		if who == "w2" {
			cl = w2
		}
		action := op[strings.Index(op, ":")+1:]
		stmtTime := now()
		if strings.HasSuffix(action, " with-ancient-write-time") {
			action = strings.TrimSuffix(action, " with-ancient-write-time")
			var k int
			fmt.Sscanf(action[7:], "%d", &k)
			m := model[k]
			if strings.HasPrefix(action, "insert") {
				// the first write of the key, or its replay after the marker was reclaimed by a vacuum that this
				// writer has seen (no interplay with markers that are still around)
				if m != nil && !(!m.live && reclaimed[k] && sawVacuum[who]) {
					return nil, false
				}
				stmtTime = engine.T(500)
			} else {
				if m == nil || !m.live || !m.insTime.Equal(engine.T(500)) {
					return nil, false // only the delete of the anciently inserted row
				}
				stmtTime = engine.T(600)
			}
			must(cl.SetWriteTime(stmtTime))
		} else if strings.HasSuffix(action, " with-older-write-time") {
			action = strings.TrimSuffix(action, " with-older-write-time")
			stmtTime = now().Add(-15 * time.Second)
			must(cl.SetWriteTime(stmtTime))
		} else if strings.HasPrefix(action, "insert") || strings.HasPrefix(action, "update") || strings.HasPrefix(action, "delete") {
			must(cl.Exec("update s3db_conn set write_time=NULL"))
		}
		switch {
		case strings.HasPrefix(action, "insert"), strings.HasPrefix(action, "update"), strings.HasPrefix(action, "delete"):
			var k int
			fmt.Sscanf(action[7:], "%d", &k)
			var q string
			switch action[:6] {
			case "insert":
				q = fmt.Sprintf("insert into {T} values(%d,'i%d','c%d')", k, step, step)
				if stmtTime.Equal(engine.T(500)) {
					// the ancient INSERT always writes the same row at the same time: its replay is byte-identical
					q = fmt.Sprintf("insert into {T} values(%d,'anc','anc')", k)
				}
			case "update":
				q = fmt.Sprintf("update {T} set b='u%d' where a=%d", step, k)
			case "delete":
				q = fmt.Sprintf("delete from {T} where a=%d", k)
			}
			n, err := cl.Affected(q)
			if err != nil || n != 1 {
				return nil, false
			}
			m := model[k]
			if m == nil {
				m = &gModelRow{}
				model[k] = m
			}
			switch action[:6] {
			case "insert":
				*m = gModelRow{live: true, b: fmt.Sprintf("i%d", step), c: fmt.Sprintf("c%d", step), insTime: stmtTime}
				if stmtTime.Equal(engine.T(500)) {
					m.b, m.c = "anc", "anc"
				}
				delete(reclaimed, k)
			case "update":
				// w2 may be stale: its update applies to the row as the merge will see it
				if m.live {
					m.b = fmt.Sprintf("u%d", step)
				}
			case "delete":
				if m.live && !stmtTime.After(m.insTime) {
					return nil, false // a DELETE older than the row's INSERT has no effect (documented rule)
				}
				*m = gModelRow{live: false, delTime: stmtTime}
			}
			if len(vacuumedEarlier) > 0 {
				objs := w.B.Snapshot()
				heads, _ := engine.Versions(objs, lay)
				for _, h := range heads {
					vd, err := engine.WalkVersion(objs, lay, h)
					if err != nil || len(vd.Missing) == 0 {
						continue
					}
					onVacuumed := false
					for _, par := range vd.Root.MergeSources {
						onVacuumed = onVacuumed || vacuumedEarlier[par]
					}
					if onVacuumed {
						// the writer was still based on a version that a vacuum (cutoff later than that writer's last
						// refresh) removed; it had the nodes in memory / in its node cache and published without noticing
						viol("c09", "stale-writer-publishes-version-on-vacuumed-base", "%s committed version %s on top of %v, which an earlier vacuum of this history had removed together with nodes %v that the new version still refers to; every later open fails", who, h, vd.Root.MergeSources, vd.Missing)
					} else {
						viol("c09", "commit-publishes-dangling-version", "%s committed version %s, which refers to objects that do not exist: %v", who, h, vd.Missing)
					}
					return nil, false
				}
			}
			record(cl, created[who])
		case action == "reconnect":
			w1.Close()
			w1 = w.NewClient("w1")
			if err := w1.Create(opts); err != nil {
				viol("c09", "open-failed", "re-open failed: %v", err)
				return nil, false
			}
			created["w1"] = now()
			record(w1, now())
		case action == "refresh":
			if err := cl.Refresh(); err != nil {
				viol("c09", "refresh-failed", "%v", err)
				return nil, false
			}
			sawVacuum[who] = true
			created[who] = now()
			record(cl, now())
		case op == "merge-open":
			cur, _ := engine.Versions(w.B.Snapshot(), lay)
			if len(cur) < 2 {
				return nil, false
			}
			m := w.NewClient(fmt.Sprintf("m%d", step))
			if err := m.Create(opts); err != nil {
				viol("c09", "open-failed", "merging open failed: %v", err)
				return nil, false
			}
			record(m, now())
			m.Close()
		case action == "vacuum-mid":
			if step == len(ops)-1 {
				return nil, false // the final vacuum with every cutoff follows anyway
			}
			if !vacuumOK(w1, evTimes[len(evTimes)/2]) {
				return nil, false
			}
			record(w1, created["w1"])
		case action == "vacuum-before-all-versions":
			// later than the ancient row times, earlier than the creation of every version: purges, removes no history
			if !vacuumOK(w1, evTimes[0].Add(-time.Second)) {
				return nil, false
			}
			record(w1, created["w1"])
		case action == "vacuum-all":
			if step == len(ops)-1 {
				return nil, false
			}
			if !vacuumOK(w1, now().Add(time.Second)) {
				return nil, false
			}
			record(w1, created["w1"])
		}
		res.Trans++
	}
	// ---- the final vacuum with cutoff #ci ----
	advance()
	if ci/3 >= len(evTimes) {
		return nil, false
	}
	cut := evTimes[ci/3].Add(time.Duration(ci%3-1) * time.Second)
	where = fmt.Sprintf("epn=%d cache=%d ops=%v then w1:vacuum(before=%s; event times start %s, +10s each)", c.EPN, c.Cache, names, cut.Format("15:04:05"), evTimes[0].Format("15:04:05"))
	pre := w.B.Snapshot()
	preOwn, _ := w1.Query(selAll)
	preDesc, _ := w1.Query("select a,b,c from {T} where a<=2 order by a desc")
	preFresh, err := c04Rows(pre, opts, 0)
	w.MakeCurrent()
	if err != nil {
		viol("c09", "pre-vacuum-open-failed", "a fresh reader fails before the vacuum: %v", err)
		return nil, true
	}
	ownVer, _ := w1.Version()
	preCur, preMerged := engine.Versions(pre, lay)
	type vinfo struct {
		parents []string
		created time.Time
		nodes   []string
		where   string
	}
	graph := map[string]*vinfo{}
	for _, n := range append(append([]string{}, preCur...), preMerged...) {
		vd, err := engine.WalkVersion(pre, lay, n)
		if err != nil {
			continue
		}
		vi := &vinfo{parents: vd.Root.MergeSources, nodes: vd.Tree.Nodes, where: vd.Where}
		if vd.Root.Created != nil {
			vi.created = *vd.Root.Created
		}
		graph[n] = vi
	}
	reclaimedBefore := map[int]bool{}
	for k := range reclaimed {
		reclaimedBefore[k] = true
	}
	// what EARLIER vacuums removed; the final vacuum's own removals are exactly what the oracles below judge
	removedBefore := map[string]bool{}
	for n := range vacuumedEarlier {
		removedBefore[n] = true
	}
	mark := w.B.LogLen()
	if flt != nil {
		// ---- the vacuum meets one failing request; the connection lives on ----
		n, fired := 0, ""
		w1.H.Fault = func(rq *engine.Req) (engine.FaultMode, error) {
			n++
			if n-1 != flt.Idx {
				return engine.FaultNone, nil
			}
			fired = rq.Op + " " + rq.Key
			if flt.Applied {
				return engine.ApplyThenFail, engine.ErrTransport
			}
			return engine.FailBefore, engine.ErrTransport
		}
		w.DeleteDescending = flt.Desc
		verr, err := w1.Vacuum(cut)
		w.DeleteDescending = false
		w1.H.Fault = nil
		if fired == "" {
			return nil, true
		}
		res.Execs++
		res.Trans++
		res.NontrivN++
		how := "fails"
		if flt.Applied {
			how = "is carried out but answered with an error"
		}
		if flt.Desc {
			how += " (objects deleted in descending name order)"
		}
		where += fmt.Sprintf("; request #%d of the vacuum (%s) %s; vacuum reported: %v %s", flt.Idx, fired, how, err, verr)
		res.Outcomes = append(res.Outcomes, fmt.Sprintf("failed-vacuum-reported-error=%v", err != nil || verr != ""))
		own, err := w1.Query(selAll)
		if err != nil || !own.Equal(preOwn) {
			viol("c09", "failed-vacuum:vacuuming-connection-rows-changed", "rows on the vacuuming connection (not refreshed): before %v, after the failed vacuum %v (err %v)", preOwn, own, err)
			return nil, true
		}
		desc, err := w1.Query("select a,b,c from {T} where a<=2 order by a desc")
		if err != nil || !desc.Equal(preDesc) {
			viol("c09", "failed-vacuum:vacuuming-connection-desc-select", "descending select: before %v, after the failed vacuum %v (err %v)", preDesc, desc, err)
		}
		post := w.B.Snapshot()
		postFresh, err := c04Rows(post, opts, 0)
		w.MakeCurrent()
		if err != nil {
			viol("c09", "failed-vacuum:fresh-reader-fails", "a connection opened after the failed vacuum fails: %v", err)
			return nil, true
		}
		// per key: what a fresh reader saw before, or what it sees after the complete vacuum
		state := func(rows engine.Rows) map[string]string {
			m := map[string]string{}
			for _, r := range rows {
				m[strings.SplitN(r, "|", 2)[0]] = r
			}
			return m
		}
		a, b, g := state(preFresh), state(flt.AltFresh), state(postFresh)
		keys := map[string]bool{}
		for _, m := range []map[string]string{a, b, g} {
			for k := range m {
				keys[k] = true
			}
		}
		for k := range keys {
			if g[k] != a[k] && g[k] != b[k] {
				viol("c09", "failed-vacuum:fresh-connection-rows-changed", "key %s: a connection opened after the failed vacuum sees %q; before the vacuum %q, after a complete vacuum %q", k, g[k], a[k], b[k])
				break
			}
		}
		postCur, _ := engine.Versions(post, lay)
		for _, n := range postCur {
			if vd, err := engine.WalkVersion(post, lay, n); err == nil && len(vd.Missing) > 0 {
				viol("c09", "failed-vacuum:current-version-refers-to-deleted-object", "version %s under root/current refers to deleted objects %v", n, vd.Missing)
			}
		}
		advance()
		must(w1.Exec("update s3db_conn set write_time=NULL"))
		e1 := w1.Exec("insert into {T} values(77,'post','vacuum')")
		rows, e2 := w1.Query("select a from {T} where a=77")
		if e1 != nil || e2 != nil || len(rows) != 1 {
			viol("c09", "failed-vacuum:not-writable", "INSERT after the failed vacuum: %v; reading it back: %v %v", e1, rows, e2)
		} else {
			f2, err := c04Rows(w.B.Snapshot(), opts, 0)
			w.MakeCurrent()
			seen := false
			for _, r := range f2 {
				seen = seen || strings.HasPrefix(r, "i77|")
			}
			if err != nil || !seen {
				viol("c09", "failed-vacuum:later-write-not-visible", "a row inserted on the vacuuming connection after the failed vacuum is not visible to a new connection: %v (err %v)", f2, err)
			}
		}
		if len(w.B.Broken) > 0 {
			viol("c09", "store-invariant", "%v", w.B.Broken)
		}
		return nil, true
	}
	if !vacuumOK(w1, cut) {
		return nil, true
	}
	for _, rq := range w.B.LogSince(mark) {
		if rq.Client == "w1" {
			gVacuumReqs = append(gVacuumReqs, rq)
		}
	}
	res.Execs++
	res.Trans++
	deleted := 0
	for _, rq := range w.B.LogSince(mark) {
		if rq.Op == "DELETE" && rq.Outcome == "ok" {
			if _, existed := pre[rq.Key]; existed {
				deleted++
			}
		}
	}
	if deleted > 0 {
		res.NontrivN++
	}
	gDeleted = deleted
	res.Outcomes = append(res.Outcomes, fmt.Sprintf("deleted>0=%v", deleted > 0))
	post := w.B.Snapshot()
	// ---------- C09 ----------
	own, err := w1.Query(selAll)
	if err != nil || !own.Equal(preOwn) {
		viol("c09", "vacuuming-connection-rows-changed", "rows on the vacuuming connection: before %v, after %v (err %v)", preOwn, own, err)
		return nil, true
	}
	desc, err := w1.Query("select a,b,c from {T} where a<=2 order by a desc")
	if err != nil || !desc.Equal(preDesc) {
		viol("c09", "vacuuming-connection-desc-select", "descending select: before %v, after %v (err %v)", preDesc, desc, err)
	}
	for k := 1; k <= 3; k++ {
		got, err := w1.Query(fmt.Sprintf("select a,b,c from {T} where a=%d", k))
		var want engine.Rows
		for _, r := range preOwn {
			if strings.HasPrefix(r, fmt.Sprintf("i%d|", k)) {
				want = append(want, r)
			}
		}
		if err != nil || len(got) != len(want) || (len(got) == 1 && got[0] != want[0]) {
			viol("c09", "vacuuming-connection-point-select", "select a=%d: %v (err %v), want %v", k, got, err, want)
		}
	}
	postFresh, err := c04Rows(post, opts, 0)
	gPostFresh = postFresh
	w.MakeCurrent()
	if err != nil {
		viol("c09", "fresh-reader-fails-after-vacuum", "a connection opened after the vacuum fails: %v", err)
		return nil, true
	}
	keyOf := func(r string) int {
		var k int
		fmt.Sscanf(strings.TrimPrefix(strings.SplitN(r, "|", 2)[0], "i"), "%d", &k)
		return k
	}
	diffKeys := map[int]bool{}
	{
		a, b := map[string]bool{}, map[string]bool{}
		for _, r := range preFresh {
			a[r] = true
		}
		for _, r := range postFresh {
			b[r] = true
		}
		for r := range a {
			if !b[r] {
				diffKeys[keyOf(r)] = true
			}
		}
		for r := range b {
			if !a[r] {
				diffKeys[keyOf(r)] = true
			}
		}
	}
	for k := range diffKeys {
		m := model[k]
		gone := (m != nil && !m.live && m.delTime.Before(cut)) || reclaimedBefore[k]
		if !gone {
			viol("c09", "fresh-connection-rows-changed", "a connection opened after the vacuum sees %v, one opened just before it saw %v; key %d differs although no delete marker of it is older than the cutoff", postFresh, preFresh, k)
			break
		}
	}
	// every version created at/after the cutoff, and every version still under root/current, shows its rows
	postCur, postMerged := engine.Versions(post, lay)
	inCur := map[string]bool{}
	for _, n := range postCur {
		inCur[n] = true
	}
	var names2 []string
	for n := range recorded {
		names2 = append(names2, n)
	}
	sort.Strings(names2)
	for _, n := range names2 {
		rc := recorded[n]
		g := graph[n]
		if g == nil {
			continue
		}
		if !(inCur[n] || !g.created.Before(cut)) {
			continue
		}
		if removedBefore[n] && !inCur[n] {
			continue // removed by an earlier vacuum; what is there now is a stale writer's retire copy
		}
		rows, err := openOnly(w, c.EPN, []string{n})
		w.MakeCurrent()
		if err != nil {
			cls := "retained-version-unreadable:created-at-or-after-cutoff"
			if inCur[n] {
				cls = "retained-version-unreadable:current"
			}
			viol("c09", cls, "version %s (created %s, current: %v) cannot be re-opened after the vacuum: %v", n, g.created.Format("15:04:05"), inCur[n], err)
		} else if !rows.Equal(rc.rows) {
			viol("c09", "retained-version-rows-changed", "version %s showed %v, after the vacuum %v", n, rc.rows, rows)
		}
	}
	// no version object that is still present refers to a deleted object
	for _, n := range append(append([]string{}, postCur...), postMerged...) {
		vd, err := engine.WalkVersion(post, lay, n)
		if err != nil {
			viol("c09", "version-undecodable", "%v", err)
			continue
		}
		if len(vd.Missing) > 0 && removedBefore[n] && !inCur[n] {
			continue
		}
		if len(vd.Missing) > 0 {
			g := graph[n]
			kind := "retired-ancestor"
			if inCur[n] {
				kind = "current"
				if !strings.Contains(ownVer, n) {
					kind = "current-unmerged-head-of-another-writer"
				}
			} else if g != nil && !g.created.Before(cut) {
				kind = "created-at-or-after-cutoff"
			}
			viol("c09", "version-refers-to-deleted-object:"+kind, "version %s (%s) is still present but refers to deleted objects %v", n, vd.Where, vd.Missing)
		}
	}
	// ---------- C10 ----------
	var cur []string
	json.Unmarshal([]byte(ownVer), &cur)
	newVer, _ := w1.Version()
	var cur2 []string
	json.Unmarshal([]byte(newVer), &cur2)
	if len(cur2) == 1 {
		if vd, err := engine.WalkVersion(post, lay, cur2[0]); err == nil {
			for _, e := range vd.Tree.Entries {
				if e.Tomb != 0 {
					viol("c10", "tombstone-left-behind", "entry %s is a tombstone in the vacuumed version", e.Key)
				}
				if e.Deleted {
					dt := time.Unix(0, e.DelAt).UTC()
					if dt.Before(cut) {
						viol("c10", "old-delete-marker-not-reclaimed", "entry %s was deleted at %s, before the cutoff, and still occupies the table", e.Key, dt.Format("15:04:05"))
					}
				}
			}
			// markers at/after the cutoff must still be there
			for k, m := range model {
				if m.live || m.delTime.Before(cut) || reclaimedBefore[k] {
					continue
				}
				inOwn := false // only if w1 had merged that delete
				if pv, err := engine.WalkVersion(pre, lay, cur[0]); err == nil && len(cur) == 1 {
					for _, e := range pv.Tree.Entries {
						if e.Key == fmt.Sprintf("i%d", k) && e.Deleted {
							inOwn = true
						}
					}
				}
				if !inOwn {
					continue
				}
				found := false
				for _, e := range vd.Tree.Entries {
					if e.Key == fmt.Sprintf("i%d", k) && e.Deleted {
						found = true
					}
				}
				if !found {
					viol("c10", "recent-delete-marker-reclaimed", "key %d was deleted at %s, not before the cutoff, but its delete marker is gone", k, m.delTime.Format("15:04:05"))
				}
			}
		}
	}
	// ancestors all of whose successors were created strictly before the cutoff are gone, with their private objects
	succ := map[string][]string{}
	for n, g := range graph {
		for _, p := range g.parents {
			succ[p] = append(succ[p], n)
		}
	}
	anc := map[string]bool{}
	var walk func(n string)
	walk = func(n string) {
		if anc[n] {
			return
		}
		anc[n] = true
		if g := graph[n]; g != nil {
			for _, p := range g.parents {
				walk(p)
			}
		}
	}
	for _, n := range cur {
		walk(n)
	}
	reach := map[string]bool{}
	for _, n := range append(append([]string{}, postCur...), postMerged...) {
		if vd, err := engine.WalkVersion(post, lay, n); err == nil {
			for _, x := range vd.Tree.Nodes {
				reach[x] = true
			}
		}
	}
	for n := range anc {
		g := graph[n]
		if g == nil || g.where != "merged" || len(succ[n]) == 0 {
			continue
		}
		allBefore := true
		for _, s := range succ[n] {
			sg := graph[s]
			if sg == nil || !sg.created.Before(cut) || !anc[s] {
				allBefore = false
			}
		}
		if !allBefore {
			continue
		}
		if _, still := post[lay.Merged()+n]; still {
			viol("c10", "superseded-version-not-removed", "version %s was superseded by %v, all created before the cutoff, but is still under root/merged", n, succ[n])
			continue
		}
		for _, x := range g.nodes {
			if _, still := post[lay.Node(x)]; still && !reach[x] {
				viol("c10", "orphan-object-not-removed", "object node/%s was only needed by the removed version %s and still exists", x, n)
				break
			}
		}
	}
	// repeating the same vacuum changes nothing
	if vacuumOK(w1, cut) {
		again := w.B.Snapshot()
		if engine.HashObjs(again) != engine.HashObjs(post) {
			var diff []string
			for k := range post {
				if _, ok := again[k]; !ok {
					diff = append(diff, "-"+k)
				}
			}
			for k := range again {
				if _, ok := post[k]; !ok {
					diff = append(diff, "+"+k)
				}
			}
			sort.Strings(diff)
			viol("c10", "repeated-vacuum-changes-bucket", "the same vacuum run again changed the bucket: %v", diff)
		}
		rows, _ := w1.Query(selAll)
		if !rows.Equal(preOwn) {
			viol("c09", "repeated-vacuum-changes-rows", "rows after repeating the vacuum: %v, before %v", rows, preOwn)
		}
	}
	// statements that match no row change nothing, so their commit must write nothing - also right after a vacuum
	// (which may have removed the handle's own, empty, current version)
	{
		mark := w.B.LogLen()
		e1 := w1.Exec("update {T} set b='zz' where a=999")
		e2 := w1.Exec("delete from {T} where a=999")
		for _, rq := range w.B.LogSince(mark) {
			if rq.Client == "w1" && rq.Mutating() {
				viol("c09", "noop-statement-after-vacuum-writes", "after the vacuum an UPDATE / DELETE that matches no row (%v %v) issued %s", e1, e2, rq.String())
				break
			}
		}
	}
	// a late-arriving older write by a stale writer still loses against markers that were kept
	advance()
	late := w.NewClient("late9")
	lateOpts := opts
	lateOK := late.Create(lateOpts) == nil
	if lateOK {
		// make it stale on purpose: write with a time older than every event
		must(late.SetWriteTime(engine.T(500)))
	}
	_ = lateOK
	late.Close()
	// (the stale-writer probe proper: w2 if it never refreshed writes old rows for keys 1 and 2)
	staleW2 := true
	for _, o := range ops {
		if gOps[o] == "w2:refresh" {
			staleW2 = false
		}
	}
	if staleW2 {
		must(w2.SetWriteTime(engine.T(500)))
		w2.Exec("insert into {T} values(1,'late','late')")
		w2.Exec("insert into {T} values(2,'late','late')")
		rows, err := c04Rows(w.B.Snapshot(), opts, 0)
		w.MakeCurrent()
		if err == nil {
			for k, m := range model {
				if m.live || m.delTime.Before(cut) || reclaimedBefore[k] {
					continue
				}
				for _, r := range rows {
					if keyOf(r) == k {
						viol("c10", "kept-marker-loses-against-older-write", "key %d was deleted at %s (marker kept by the vacuum) but an older write merged afterwards brought it back: %v", k, m.delTime.Format("15:04:05"), rows)
					}
				}
			}
		}
	}
	// the table is still writable
	advance()
	must(w1.Exec("update s3db_conn set write_time=NULL"))
	e1 := w1.Exec("insert into {T} values(77,'post','vacuum')")
	e2 := w1.Exec("update {T} set b='post2' where a=77")
	e3 := w1.Exec("delete from {T} where a=77")
	rows, e4 := w1.Query(selAll)
	if e1 != nil || e2 != nil || e3 != nil || e4 != nil || !rows.Equal(preOwn) {
		viol("c09", "not-writable-after-vacuum", "INSERT/UPDATE/DELETE after the vacuum: %v %v %v %v; rows %v want %v", e1, e2, e3, e4, rows, preOwn)
	}
	if len(w.B.Broken) > 0 {
		viol("c09", "store-invariant", "%v", w.B.Broken)
	}
	res.States = append(res.States, fmt.Sprintf("%d|%d|%s", len(postCur), len(postMerged), strings.Join(own, ";")))
	return map[string]interface{}{"ops": names, "cutoff": cut.Format("15:04:05"), "objects_before": len(pre), "objects_after": len(post), "rows": own}, true
}
