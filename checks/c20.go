package checks

import (
	"encoding/json"
	"fmt"
	"strings"

	"verif/engine"
)

// C20 — table definitions are accepted, declared and rejected consistently.
//
// Grammar-generated argument lists (column specifications and option spellings); a small reference
// parser of the documented grammar says accept/reject and, for accepted ones, names/order/key/NOT NULL.

type c20Col struct {
	Name  string `json:"n"` // as written (maybe quoted)
	Plain string `json:"p"` // unquoted name
	Type  string `json:"t"`
	Cons  string `json:"c"`
}

type c20Case struct {
	Cols  []c20Col `json:"cols,omitempty"`
	Table string   `json:"tbl,omitempty"` // table-level constraint text
	Opts  []string `json:"opts,omitempty"`
	Raw   bool     `json:"raw,omitempty"` // Opts is the complete argument list (no default columns/bucket args)
}

var c20Names = []struct{ written, plain string }{
	{"a", "a"}, {"A", "A"}, {"B", "B"}, {`"a b"`, "a b"}, {`'q'`, "q"}, {"_x1", "_x1"},
	// characters that SQL quoting and other quoting conventions treat differently
	{`"d\f"`, `d\f`}, {`'s"h'`, `s"h`},
}
var c20Cons = []string{"", "primary key", "not null", "primary key not null", "unique", "default 1"}

func init() {
	All["C20"] = &Check{Level: "exploration", Run: c20Run}
	engine.RegisterWorker("c20", c20Worker)
}

func c20Gen(thorough bool) []c20Case {
	var cases []c20Case
	var cols1, cols2, cols3 []c20Col
	for _, n := range c20Names {
		for _, t := range []string{"", "text", "integer", "real"} {
			for _, c := range c20Cons {
				cols1 = append(cols1, c20Col{n.written, n.plain, t, c})
			}
		}
		for _, t := range []string{"", "integer"} {
			for _, c := range c20Cons {
				cols2 = append(cols2, c20Col{n.written, n.plain, t, c})
			}
		}
		for _, c := range []string{"", "primary key", "not null"} {
			cols3 = append(cols3, c20Col{n.written, n.plain, "", c})
		}
	}
	tbl1 := []string{"", "primary key(a)", "primary key(a,B)", "primary key(zz)", `primary key("a b")`}
	for _, c := range cols1 {
		for _, t := range tbl1 {
			cases = append(cases, c20Case{Cols: []c20Col{c}, Table: t})
		}
	}
	for _, c1 := range cols2 {
		for _, c2 := range cols2 {
			for _, t := range []string{"", "primary key(a)", "primary key(a,B)"} {
				if !thorough && t != "" && (c1.Type != "" || c2.Type != "") {
					continue
				}
				cases = append(cases, c20Case{Cols: []c20Col{c1, c2}, Table: t})
			}
		}
	}
	for _, c1 := range cols3 {
		for _, c2 := range cols3 {
			for _, c3 := range cols3 {
				if !thorough && c1.Plain != "a" && c2.Plain != "a" && c3.Plain != "a" {
					continue
				}
				cases = append(cases, c20Case{Cols: []c20Col{c1, c2, c3}})
			}
		}
	}
	// option spellings with a fixed valid column specification
	optAlts := [][]string{
		{"", "entries_per_node=2", "entries_per_node=x", "entries_per_node=-1", "entries_per_node=", "entries_per_node", "entries_per_node=2.5", "entries_per_node='2'"},
		{"", "node_cache_entries=10", "node_cache_entries=x", "node_cache_entries=-5", "node_cache_entries"},
		{"", "readonly"},
		{"", "foo=1", "foo", "COLUMNS='a'", "entries_per_node=2"},
	}
	var rec func(i int, cur []string)
	rec = func(i int, cur []string) {
		if i == len(optAlts) {
			cases = append(cases, c20Case{Cols: []c20Col{{"a", "a", "", "primary key"}, {"b", "b", "", ""}}, Opts: append([]string{}, cur...)})
			return
		}
		for _, o := range optAlts[i] {
			if o == "" {
				rec(i+1, cur)
			} else {
				rec(i+1, append(cur, o))
			}
		}
	}
	rec(0, nil)
	base := "s3_bucket='bk', s3_endpoint='verif://c'"
	for _, raw := range []string{
		base + ", s3_prefix='p'",                                       // missing columns
		base + ", s3_prefix='p', columns=''",                           // empty columns
		base + ", s3_prefix='p', columns",                              // columns without value
		base + ", s3_prefix='p', columns='a primary key', columns='b'", // duplicated columns
		base + ", s3_prefix='p', columns='a primary key', readonly, readonly",
		base + `, s3_prefix="p", columns='a primary key, b'`,
		base + ", s3_prefix=p, columns='a primary key, b'",
		base + ", s3_prefix='p', columns=a primary key",
		base + `, s3_prefix='p', columns="a primary key, b"`,
		base + ", s3_prefix='p', columns=',a primary key'",
		base + ", s3_prefix='p', columns='a primary key b'",
		base + ", s3_prefix='p', columns='a primary key, b', s3_prefix='q'",
		"columns='a primary key', s3_endpoint='verif://c'", // endpoint without bucket
		"",
		"columns='a primary key, b', s3_bucket='bk', s3_endpoint='verif://c', s3_prefix='p', s3_bucket",
		"columns='a primary key, b', s3_bucket='bk', s3_endpoint='verif://c', s3_prefix",
	} {
		cases = append(cases, c20Case{Raw: true, Opts: []string{raw}})
	}
	return cases
}

func c20Run(r *engine.Run) int {
	cases := c20Gen(r.Thorough())
	r.Rule = "argument lists generated from the documented grammar: 1-3 column definitions from names {a,A,B,\"a b\",'q',_x1} x types {-,text,integer,real} x constraints {-,primary key,not null,primary key not null,unique,default 1} x table-level keys {-,(a),(a,B),(zz),(\"a b\")}, plus option spellings (valid, malformed, duplicated, unknown, missing/empty columns, three quoting styles); non-trivial = every list (each is a distinct specification)"
	r.Bounds["argument_lists"] = len(cases)
	r.Assumptions = []string{"reference = a small parser of the README grammar (column name, optional type, PRIMARY KEY, NOT NULL; one single-column key; no UNIQUE/DEFAULT)", "entries_per_node=1 is kept out (not decided here)"}
	var js []json.RawMessage
	for _, c := range cases {
		js = append(js, engine.J(c))
	}
	n := 0
	engine.Map("c20", js, func(i int, c json.RawMessage, res *engine.Result) {
		r.Add("c20", c, res)
		n++
		if n%1571 == 1 {
			r.Sample(map[string]interface{}{"case": c, "outcome": res.Outcome})
		}
	})
	return r.Vacuity(2, 100)
}

type c20Expect struct {
	Either  bool // the documentation does not say: both outcomes are fine
	Accept  bool
	Why     string
	Names   []string
	Key     int // -1 = none (hidden row id)
	NotNull []bool
}

func c20Reference(c c20Case) c20Expect {
	e := c20Expect{Key: -1}
	keys := 0
	seen := map[string]bool{}
	for i, col := range c.Cols {
		lower := strings.ToLower(col.Plain)
		if seen[lower] {
			return c20Expect{Why: "duplicate column"}
		}
		seen[lower] = true
		e.Names = append(e.Names, col.Plain)
		nn := false
		switch col.Cons {
		case "unique", "default 1":
			return c20Expect{Why: col.Cons + " not supported"}
		case "primary key":
			keys++
			e.Key = i
		case "primary key not null":
			keys++
			e.Key = i
			nn = true
		case "not null":
			nn = true
		}
		e.NotNull = append(e.NotNull, nn)
	}
	if c.Table != "" {
		inner := strings.TrimSuffix(strings.TrimPrefix(c.Table, "primary key("), ")")
		parts := strings.Split(inner, ",")
		if len(parts) > 1 {
			return c20Expect{Why: "composite key"}
		}
		keys++
		name := strings.Trim(parts[0], `"'`)
		found := false
		for i, n := range e.Names {
			if n == name {
				e.Key, found = i, true
			}
		}
		if !found {
			for _, n := range e.Names {
				if strings.EqualFold(n, name) {
					// key reference differs from the column name in case only: undocumented
					return c20Expect{Either: true, Why: "key reference differs in case", Key: -1}
				}
			}
		}
		if !found {
			return c20Expect{Why: "key column not defined"}
		}
	}
	if keys > 1 {
		return c20Expect{Why: "several primary keys"}
	}
	e.Accept = true
	return e
}

func c20ColumnsSpec(c c20Case) string {
	var parts []string
	for _, col := range c.Cols {
		p := col.Name
		if col.Type != "" {
			p += " " + col.Type
		}
		if col.Cons != "" {
			p += " " + col.Cons
		}
		parts = append(parts, p)
	}
	if c.Table != "" {
		parts = append(parts, c.Table)
	}
	return strings.Join(parts, ", ")
}

func sqlQuote(s string) string { return "'" + strings.ReplaceAll(s, "'", "''") + "'" }
func sqlIdent(s string) string { return `"` + strings.ReplaceAll(s, `"`, `""`) + `"` }

// c20OptsExpect decides accept/reject for the option part.
func c20OptsExpect(opts []string) (bool, string) {
	seen := map[string]bool{}
	for _, o := range opts {
		kv := strings.SplitN(o, "=", 2)
		if seen[kv[0]] {
			return false, "duplicated " + kv[0]
		}
		seen[kv[0]] = true
		switch kv[0] {
		case "entries_per_node", "node_cache_entries":
			if len(kv) != 2 {
				return false, "missing value"
			}
			var n int
			if _, err := fmt.Sscanf(kv[1], "%d", &n); err != nil || fmt.Sprint(n) != kv[1] || n < 0 {
				return false, "malformed number " + kv[1]
			}
		case "readonly":
		default:
			return false, "unknown option " + kv[0]
		}
	}
	return true, ""
}

func c20Worker(raw json.RawMessage) (res *engine.Result) {
	var c c20Case
	must(json.Unmarshal(raw, &c))
	res = &engine.Result{Execs: 1, Nontrivial: true}
	defer func() {
		if p := recover(); p != nil {
			res.Violate("go-panic:"+engine.NormalizePanic(fmt.Sprint(p)), "panic: %v [%s]", p, string(raw))
			engine.Poisoned, res.Poisoned = true, true
		}
	}()
	w := engine.NewWorld()
	defer w.Close()
	w.SetClock(engine.T(1000))
	cl := w.NewClient("c")
	var create string
	exp := c20Expect{Key: -1}
	readonly := false
	if c.Raw {
		create = "create virtual table {T} using s3db(" + c.Opts[0] + ")"
		exp = c20RawExpect(c.Opts[0])
	} else {
		exp = c20Reference(c)
		args := []string{"columns=" + sqlQuote(c20ColumnsSpec(c)), "s3_bucket='bk'", "s3_endpoint='verif://c'", "s3_prefix='p'"}
		args = append(args, c.Opts...)
		create = "create virtual table {T} using s3db(" + strings.Join(args, ", ") + ")"
		if ok, why := c20OptsExpect(c.Opts); !ok && exp.Accept {
			exp = c20Expect{Why: why, Key: -1}
		}
		for _, o := range c.Opts {
			if o == "readonly" {
				readonly = true
			}
		}
	}
	where := strings.ReplaceAll(create, "{T}", "t")
	err := cl.Exec(create)
	res.Trans++
	feature := c20Feature(c)
	if exp.Either {
		if err == nil {
			res.Outcome = "accepted-undocumented"
			return res
		}
		exp.Accept = false
	}
	if exp.Accept && err != nil {
		res.Outcome = "wrongly-rejected"
		res.Violate("valid-definition-rejected:"+feature, "documented-valid definition rejected: %v [%s]", err, where)
	}
	if !exp.Accept && err == nil {
		res.Outcome = "wrongly-accepted"
		res.Violate("invalid-definition-accepted:"+feature, "definition that must be rejected (%s) was accepted [%s]", exp.Why, where)
		return res
	}
	if err != nil {
		if res.Outcome == "" {
			res.Outcome = "rejected"
		}
		// nothing registered, nothing written
		for _, rq := range w.B.LogSince(0) {
			if rq.Mutating() {
				res.Violate("rejected-definition-wrote:"+feature, "rejected CREATE issued %s [%s]", rq.String(), where)
				break
			}
		}
		v, verr := cl.Query("select s3db_version('" + cl.Tab + "')")
		if verr == nil {
			res.Violate("rejected-definition-left-registered:"+feature, "after the rejected CREATE (%v) s3db_version('t') answers %v instead of 'table not found' [%s]", err, v, where)
		}
		// the same rejected definition on a prefix that holds two unmerged versions (an open of such a prefix
		// by a writable table merges and commits): still nothing may be written
		{
			w2 := engine.NewWorldOn(engine.NewBucketFrom(c20TwoHeads()))
			w2.SetClock(engine.T(2000))
			c2 := w2.NewClient("c")
			e2 := c2.Exec(create)
			if e2 == nil {
				res.Violate("invalid-definition-accepted-on-populated-prefix:"+feature, "definition rejected on an empty prefix (%v) is accepted on a populated one [%s]", err, where)
			}
			for _, rq := range w2.B.LogSince(0) {
				if rq.Mutating() {
					res.Violate("rejected-definition-wrote:"+feature, "rejected CREATE (%v) on a prefix with two unmerged versions issued %s [%s]", e2, rq.String(), where)
					break
				}
			}
			w2.Close()
			w.MakeCurrent()
			res.Trans++
		}
		err2 := cl.Exec("create virtual table {T} using s3db(columns='k primary key, v', s3_bucket='bk', s3_endpoint='verif://c', s3_prefix='p2')")
		if err2 != nil {
			res.Violate("rejected-definition-blocks-name:"+feature, "after the rejected CREATE (%v) a valid CREATE with the same name fails: %v [%s]", err, err2, where)
		}
		return res
	}
	res.Outcome = "accepted"
	// declared schema
	info, ierr := cl.Query("select name, pk, \"notnull\" from pragma_table_xinfo('" + cl.Tab + "') where hidden=0 order by cid")
	if ierr != nil {
		res.Violate("xinfo-failed", "pragma_table_xinfo: %v [%s]", ierr, where)
		return res
	}
	var want engine.Rows
	for i, n := range exp.Names {
		pk, nn := 0, 0
		if i == exp.Key {
			pk = 1
		}
		if exp.NotNull[i] || i == exp.Key {
			nn = 1 // WITHOUT ROWID primary key columns are implicitly NOT NULL
		}
		want = append(want, fmt.Sprintf("t'%s'|i%d|i%d", n, pk, nn))
	}
	if !info.Equal(want) {
		res.Violate("declared-schema-differs:"+feature, "declared columns (name|pk|notnull) = %v, specification says %v [%s]", info, want, where)
		return res
	}
	if readonly {
		return res
	}
	// INSERT / SELECT by those names; duplicate and NULL key rejected; NOT NULL honoured
	names := make([]string, len(exp.Names))
	vals := make([]string, len(exp.Names))
	for i, n := range exp.Names {
		names[i] = sqlIdent(n)
		vals[i] = fmt.Sprintf("'v%d'", i)
	}
	ins := "insert into {T}(" + strings.Join(names, ",") + ") values(" + strings.Join(vals, ",") + ")"
	if err := cl.Exec(ins); err != nil {
		res.Violate("insert-by-declared-names-failed:"+feature, "%s: %v [%s]", ins, err, where)
		return res
	}
	got, err := cl.Query("select " + strings.Join(names, ",") + " from {T}")
	wantRow := "t" + strings.Join(vals, "|t")
	if err != nil || len(got) != 1 || got[0] != wantRow {
		res.Violate("select-by-declared-names:"+feature, "select gives %v (err %v), want [%s] [%s]", got, err, wantRow, where)
	}
	if exp.Key >= 0 {
		if err := cl.Exec(ins); engine.ErrClass(err) != "pk" {
			res.Violate("duplicate-key-accepted:"+feature, "second insert of the same key: %v [%s]", err, where)
		}
		v2 := append([]string{}, vals...)
		v2[exp.Key] = "NULL"
		if err := cl.Exec("insert into {T}(" + strings.Join(names, ",") + ") values(" + strings.Join(v2, ",") + ")"); err == nil {
			res.Violate("null-key-accepted:"+feature, "insert with NULL key accepted [%s]", where)
		}
	}
	for i := range exp.Names {
		if !exp.NotNull[i] || i == exp.Key {
			continue
		}
		v2 := append([]string{}, vals...)
		v2[i] = "NULL"
		if exp.Key >= 0 {
			v2[exp.Key] = "'other'"
		}
		if err := cl.Exec("insert into {T}(" + strings.Join(names, ",") + ") values(" + strings.Join(v2, ",") + ")"); err == nil {
			res.Violate("not-null-not-enforced:insert", "NULL accepted by INSERT into NOT NULL column %s [%s]", exp.Names[i], where)
		}
		if err := cl.Exec("update {T} set " + names[i] + "=NULL"); err == nil {
			res.Violate("not-null-not-enforced:update", "NULL accepted by UPDATE of NOT NULL column %s [%s]", exp.Names[i], where)
		}
		break
	}
	return res
}

// c20Feature abstracts a case to the features a finding may depend on.
func c20Feature(c c20Case) string {
	if c.Raw {
		return "raw:" + strings.ReplaceAll(strings.TrimPrefix(c.Opts[0], "s3_bucket='bk', s3_endpoint='verif://c', s3_prefix='p'"), " ", "_")
	}
	f := []string{}
	quoted, space, caseDup := false, false, false
	seen := map[string]string{}
	for _, col := range c.Cols {
		if col.Name != col.Plain {
			quoted = true
		}
		if strings.Contains(col.Plain, " ") {
			space = true
		}
		l := strings.ToLower(col.Plain)
		if p, ok := seen[l]; ok && p != col.Plain {
			caseDup = true
		}
		seen[l] = col.Plain
	}
	if space {
		f = append(f, "name-with-space")
	} else if quoted {
		f = append(f, "quoted-name")
	}
	if caseDup {
		f = append(f, "names-differ-in-case-only")
	}
	if strings.Contains(c.Table, `"`) {
		f = append(f, "quoted-table-key")
	} else if c.Table != "" {
		f = append(f, "table-key")
	}
	for _, o := range c.Opts {
		kv := strings.SplitN(o, "=", 2)
		if len(kv) == 1 {
			f = append(f, "opt:"+kv[0]+"-novalue")
		} else {
			f = append(f, "opt:"+o)
		}
	}
	if len(f) == 0 {
		return "plain"
	}
	return strings.Join(f, ",")
}

// c20RawExpect gives the expectation for the hand-written raw argument lists.
func c20RawExpect(raw string) c20Expect {
	ok := map[string]c20Expect{
		`s3_bucket='bk', s3_endpoint='verif://c', s3_prefix="p", columns='a primary key, b'`: {Accept: true, Names: []string{"a", "b"}, Key: 0, NotNull: []bool{false, false}},
		`s3_bucket='bk', s3_endpoint='verif://c', s3_prefix=p, columns='a primary key, b'`:   {Accept: true, Names: []string{"a", "b"}, Key: 0, NotNull: []bool{false, false}},
		`s3_bucket='bk', s3_endpoint='verif://c', s3_prefix='p', columns=a primary key`:      {Accept: true, Names: []string{"a"}, Key: 0, NotNull: []bool{false}},
		`s3_bucket='bk', s3_endpoint='verif://c', s3_prefix='p', columns="a primary key, b"`: {Accept: true, Names: []string{"a", "b"}, Key: 0, NotNull: []bool{false, false}},
	}
	if e, found := ok[raw]; found {
		return e
	}
	return c20Expect{Why: "malformed argument list", Key: -1}
}

var c20TwoHeadsObjs map[string][]byte

// c20TwoHeads is a bucket whose prefix p holds two unmerged versions (two writers side by side).
func c20TwoHeads() map[string][]byte {
	if c20TwoHeadsObjs != nil {
		return c20TwoHeadsObjs
	}
	w := engine.NewWorld()
	w.SetClock(engine.T(100))
	var cs []*engine.Client
	for i := 0; i < 2; i++ {
		c := w.NewClient(fmt.Sprintf("h%d", i))
		must(c.Create(engine.TableOpts{Columns: "a primary key, b"}))
		cs = append(cs, c)
	}
	for i, c := range cs {
		must(c.Exec("insert into {T} values(?,?)", 100+i, "h"))
	}
	w.Close()
	c20TwoHeadsObjs = w.B.Snapshot()
	return c20TwoHeadsObjs
}
