package checks

import (
	"encoding/json"
	"fmt"
	"strings"

	"verif/engine"
)

// C06 (part): a table WITHOUT a PRIMARY KEY (hidden random row id) against a native rowid table. Row ids are
// random, so results are compared as multisets; all statement sequences up to a depth.

var c06nkOps = []string{
	"insert into %s(b,c) values(1,'x')", "insert into %s(b,c) values(2,'y')", "insert into %s(b,c) values(1,'x')",
	"insert into %s(b) values(3)", "update %s set c='u' where b=1", "update %s set b=b+10 where c='y'",
	"delete from %s where b=1", "delete from %s where c is null", "update %s set c=NULL",
}

type c06nkCase struct {
	EPN   int   `json:"epn"`
	First []int `json:"first"`
	Depth int   `json:"depth"`
}

func init() { engine.RegisterWorker("c06nokey", c06nkWorker) }

func c06nkCases(thorough bool) []json.RawMessage {
	depth := 4
	if thorough {
		depth = 5
	}
	var cases []json.RawMessage
	for _, epn := range []int{2, 4096} {
		for a := range c06nkOps {
			for b := range c06nkOps {
				cases = append(cases, engine.J(c06nkCase{EPN: epn, First: []int{a, b}, Depth: depth}))
			}
		}
	}
	return cases
}

func c06nkWorker(raw json.RawMessage) *engine.Result {
	var c c06nkCase
	must(json.Unmarshal(raw, &c))
	res := &engine.Result{}
	for total := len(c.First); total <= c.Depth; total++ {
		seqs(len(c06nkOps), total-len(c.First), func(tailOps []int) {
			ops := append(append([]int{}, c.First...), tailOps...)
			w := engine.NewWorld()
			defer w.Close()
			w.SetClock(engine.T(1000))
			cl := w.NewClient("w1")
			must(cl.Create(engine.TableOpts{Columns: "b, c", EPN: c.EPN}))
			must(cl.Exec("create table nat(b, c)"))
			var names []string
			for i, o := range ops {
				w.SetClock(engine.T(1010 + 10*i))
				q := c06nkOps[o]
				names = append(names, strings.Replace(q, "%s", "t", 1))
				na, nerr := cl.Affected(fmt.Sprintf(q, "nat"))
				sa, serr := cl.Affected(fmt.Sprintf(q, "{T}"))
				res.Trans++
				if (nerr == nil) != (serr == nil) || (nerr == nil && na != sa) {
					res.Violate("nokey-outcome:"+strings.Fields(q)[0], "%q: native (%d rows, %v), s3db (%d rows, %v) [epn=%d after %v]", q, na, nerr, sa, serr, c.EPN, names)
					return
				}
			}
			for _, q := range []string{"select b,c from %s", "select count(*), count(c), sum(b) from %s", "select b,c from %s where b>=2"} {
				want, _ := cl.Query(fmt.Sprintf(q, "nat"))
				got, err := cl.Query(fmt.Sprintf(q, "{T}"))
				if err != nil || !got.Sorted().Equal(want.Sorted()) {
					res.Violate("nokey-rows", "%s: %s err=%v [epn=%d after %v]", q, engine.Diff(want, got), err, c.EPN, names)
					return
				}
			}
			f := w.NewClient("fresh")
			if err := f.Create(engine.TableOpts{Columns: "b, c", EPN: c.EPN}); err != nil {
				res.Violate("nokey-reopen", "%v", err)
				return
			}
			want, _ := cl.Query("select b,c from nat")
			got, err := f.Query("select b,c from {T}")
			if err != nil || !got.Sorted().Equal(want.Sorted()) {
				res.Violate("nokey-rows-fresh", "fresh connection: %s err=%v [epn=%d after %v]", engine.Diff(want, got), err, c.EPN, names)
			}
			res.Execs++
			res.NontrivN++
			res.States = append(res.States, "nokey|"+strings.Join(want.Sorted(), ";"))
			if res.Data == nil {
				res.Data = engine.J(map[string]interface{}{"kind": "no primary key", "epn": c.EPN, "statements": names, "rows": want})
			}
		})
	}
	return res
}
