package checks

import (
	"fmt"
	"sort"
	"strings"

	"verif/engine"
)

// Shared history engine for C01 / C02 / C15: multi-writer histories of INSERT/UPDATE/DELETE
// statements with harness-chosen write times, refresh points and intermediate merging opens.

// Statement kinds.
const (
	kInsBC = iota // INSERT (k, b, c)
	kInsB         // INSERT (k, b)        c unmentioned
	kUpdB         // UPDATE SET b
	kUpdC         // UPDATE SET c
	kUpdBC        // UPDATE SET b, c
	kDel          // DELETE
	nKinds
)

var kindNames = []string{"INSERT(b,c)", "INSERT(b)", "UPDATE b", "UPDATE c", "UPDATE b,c", "DELETE"}

// hEvent is one event of a history.
type hEvent struct {
	T    string `json:"t"`           // x = statement, r = refresh, m = merging open by a fresh client
	W    int    `json:"w,omitempty"` // writer 0..2
	Kind int    `json:"k,omitempty"`
	Key  int    `json:"key,omitempty"`
	Rank int    `json:"rank,omitempty"` // write time rank (distinct per statement), or copied for a retry
	Val  int    `json:"val,omitempty"`  // value tag; 0 = use own statement index
	P    int    `json:"p,omitempty"`    // permutation index of the version list for r / m
	Tx   int    `json:"tx,omitempty"`   // 1 = BEGIN before this statement, 2 = COMMIT after it, 3 = both (autocommit if 0)
	// Retry marks a byte-identical re-execution of an earlier statement (same text, values and write time):
	// it is executed whatever its outcome and is not part of the accepted set.
	Retry bool `json:"retry,omitempty"`
}

func (e hEvent) String() string {
	switch e.T {
	case "x":
		if e.Retry {
			return fmt.Sprintf("w%d:RETRY[%s k%d @%d]", e.W+1, kindNames[e.Kind], e.Key, e.Rank)
		}
		return fmt.Sprintf("w%d:%s k%d @%d", e.W+1, kindNames[e.Kind], e.Key, e.Rank)
	case "r":
		return fmt.Sprintf("w%d:refresh(p%d)", e.W+1, e.P)
	case "m":
		return fmt.Sprintf("merge-open(p%d)", e.P)
	}
	return "?"
}

type hist struct {
	Base    int      `json:"base"` // 0 = empty table, 1 = INSERT(k0)@0 committed and visible to all writers
	EPN     int      `json:"epn,omitempty"`
	Writers int      `json:"writers"`
	Ev      []hEvent `json:"ev"`
	// KeyMid declares the table as columns='b, a primary key, c': one non-key column before the key, one after
	KeyMid bool `json:"keymid,omitempty"`
}

func hColumns(keyMid bool) string {
	if keyMid {
		return "b, a primary key, c"
	}
	return "" // default: a primary key, b, c
}

func (h hist) String() string {
	s := make([]string, len(h.Ev))
	for i, e := range h.Ev {
		s[i] = e.String()
	}
	b := "empty"
	if h.Base == 1 {
		b = "row(k0)@0"
	}
	if h.KeyMid {
		b += " columns='" + hColumns(true) + "'"
	}
	return fmt.Sprintf("base=%s epn=%d [%s]", b, h.EPN, strings.Join(s, "; "))
}

// aStmt is an accepted statement (the input of the reference model R-row).
type aStmt struct {
	Idx  int
	Kind int
	Key  int
	Time int // rank
	B, C string
	Cols []string
	ByW  int
}

// rrow is the documented conflict rule (README "Multiple Writers"), folded in write-time order.
func rrow(stmts []aStmt) engine.Rows {
	type rowState struct {
		live bool
		cols map[string]string
	}
	byKey := map[int]*rowState{}
	sorted := append([]aStmt{}, stmts...)
	sort.SliceStable(sorted, func(i, j int) bool { return sorted[i].Time < sorted[j].Time })
	for _, s := range sorted {
		st := byKey[s.Key]
		if st == nil {
			st = &rowState{}
			byKey[s.Key] = st
		}
		switch s.Kind {
		case kInsBC:
			st.live, st.cols = true, map[string]string{"b": s.B, "c": s.C}
		case kInsB:
			st.live, st.cols = true, map[string]string{"b": s.B}
		case kUpdB:
			if st.live {
				st.cols["b"] = s.B
			}
		case kUpdC:
			if st.live {
				st.cols["c"] = s.C
			}
		case kUpdBC:
			if st.live {
				st.cols["b"], st.cols["c"] = s.B, s.C
			}
		case kDel:
			st.live, st.cols = false, nil
		}
	}
	var keys []int
	for k, st := range byKey {
		if st.live {
			keys = append(keys, k)
		}
	}
	sort.Ints(keys)
	out := engine.Rows{}
	for _, k := range keys {
		st := byKey[k]
		b, c := "NULL", "NULL"
		if v, ok := st.cols["b"]; ok {
			b = "t'" + v + "'"
		}
		if v, ok := st.cols["c"]; ok {
			c = "t'" + v + "'"
		}
		out = append(out, fmt.Sprintf("i%d|%s|%s", k, b, c))
	}
	return out
}

// hRun is the state of an executing history.
type hRun struct {
	h        hist
	w        *engine.World
	cl       []*engine.Client
	accepted []aStmt
	known    []map[int]bool // per writer: indices into accepted that it has issued or merged
	versions []string       // canonical dumps of the statement-bearing versions, in commit order
	pruned   string
	trans    int
	inTx     []bool
	pending  [][]int // per writer: accepted-statement indices of the open transaction
	opts     engine.TableOpts
}

const selAll = "select a,b,c from {T} order by a"

var hBaseCache = map[string]map[string][]byte{}

func hBaseBucket(base, epn int, keyMid bool) map[string][]byte {
	key := fmt.Sprintf("%d/%d/%v", base, epn, keyMid)
	if m, ok := hBaseCache[key]; ok {
		return m
	}
	w := engine.NewWorld()
	w.SetClock(engine.T(10))
	if base == 1 {
		c := w.NewClient("b0")
		must(c.Create(engine.TableOpts{EPN: epn, Columns: hColumns(keyMid)}))
		must(c.SetWriteTime(engine.T(20)))
		must(c.Exec("insert into {T}(a,b,c) values(0,'b0','c0')"))
		if epn > 0 && epn < 4096 {
			// filler rows so that small rows-per-object settings give a multi-level tree
			must(c.Exec("begin"))
			for i := 101; i <= 108; i++ {
				must(c.Exec("insert into {T}(a,b,c) values(?,?,?)", i, "fb", "fc"))
			}
			must(c.Exec("commit"))
		}
	}
	w.Close()
	m := w.B.Snapshot()
	hBaseCache[key] = m
	return m
}

func hFillerRows(base, epn int) engine.Rows {
	out := engine.Rows{}
	if base == 1 && epn > 0 && epn < 4096 {
		for i := 101; i <= 108; i++ {
			out = append(out, fmt.Sprintf("i%d|t'fb'|t'fc'", i))
		}
	}
	return out
}

// baseStmts is the accepted-statement form of the base state.
func baseStmts(base int) []aStmt {
	if base == 1 {
		return []aStmt{{Idx: -1, Kind: kInsBC, Key: 0, Time: -100, B: "b0", C: "c0"}}
	}
	return nil
}

// hStart opens the world and the writers on the base state.
func hStart(h hist) *hRun {
	r := &hRun{h: h}
	r.w = engine.NewWorldOn(engine.NewBucketFrom(hBaseBucket(h.Base, h.EPN, h.KeyMid)))
	r.w.SetClock(engine.T(50))
	r.opts = engine.TableOpts{EPN: h.EPN, Columns: hColumns(h.KeyMid)}
	for i := 0; i < h.Writers; i++ {
		c := r.w.NewClient(fmt.Sprintf("w%d", i+1))
		must(c.Create(r.opts))
		r.cl = append(r.cl, c)
		r.known = append(r.known, map[int]bool{})
		r.inTx = append(r.inTx, false)
		r.pending = append(r.pending, nil)
	}
	return r
}

func (r *hRun) close() { r.w.Close() }

// heads lists the version names under root/current/.
func (r *hRun) heads() []string {
	cur, _ := engine.Versions(r.w.B.Snapshot(), engine.TableLayout("p"))
	return cur
}

func fact(n int) int {
	f := 1
	for i := 2; i <= n; i++ {
		f *= i
	}
	return f
}

// withOrder runs f with the version list permuted by permutation number p (of n heads).
func (r *hRun) withOrder(p int, f func()) {
	r.w.RootOrder = func(s []string) []string {
		ps := perms(len(s))
		if p < len(ps) {
			return applyPerm(s, ps[p])
		}
		return s
	}
	defer func() { r.w.RootOrder = nil }()
	f()
}

func stmtSQL(kind, key int, tag string) (string, []string) {
	b, c := "b"+tag, "c"+tag
	switch kind {
	case kInsBC:
		return fmt.Sprintf("insert into {T}(a,b,c) values(%d,'%s','%s')", key, b, c), []string{b, c}
	case kInsB:
		return fmt.Sprintf("insert into {T}(a,b) values(%d,'%s')", key, b), []string{b, ""}
	case kUpdB:
		return fmt.Sprintf("update {T} set b='%s' where a=%d", b, key), []string{b, ""}
	case kUpdC:
		return fmt.Sprintf("update {T} set c='%s' where a=%d", c, key), []string{"", c}
	case kUpdBC:
		return fmt.Sprintf("update {T} set b='%s', c='%s' where a=%d", b, c, key), []string{b, c}
	case kDel:
		return fmt.Sprintf("delete from {T} where a=%d", key), []string{"", ""}
	}
	panic("kind")
}

// step executes one event. It returns false when the history is redundant (pruned) or broken.
func (r *hRun) step(i int, e hEvent, res *engine.Result) bool {
	switch e.T {
	case "x":
		c := r.cl[e.W]
		if e.Tx&1 != 0 && !r.inTx[e.W] {
			must(c.Exec("begin"))
			r.inTx[e.W] = true
		}
		if err := c.SetWriteTime(engine.T(1000 + 10*e.Rank)); err != nil {
			res.Violate("set-write-time-failed", "%v [%s]", err, r.h)
			return false
		}
		tag := fmt.Sprint(i)
		if e.Val > 0 {
			tag = fmt.Sprint(e.Val - 1)
		}
		sql, vals := stmtSQL(e.Kind, e.Key, tag)
		n, err := c.Affected(sql)
		r.trans++
		accepted := err == nil && n == 1
		if e.Retry {
			if err != nil && engine.ErrClass(err) != "pk" {
				res.Violate("retry-error:"+kindNames[e.Kind], "retry %d (%s) failed: %v [%s]", i, e, err, r.h)
				return false
			}
			return true
		}
		if err != nil && engine.ErrClass(err) != "pk" {
			res.Violate("statement-error:"+kindNames[e.Kind], "statement %d (%s) failed: %v [%s]", i, e, err, r.h)
			return false
		}
		if accepted {
			idx := len(r.accepted)
			r.accepted = append(r.accepted, aStmt{Idx: i, Kind: e.Kind, Key: e.Key, Time: e.Rank, B: vals[0], C: vals[1], ByW: e.W})
			if r.inTx[e.W] {
				r.pending[e.W] = append(r.pending[e.W], idx)
			}
			r.known[e.W][idx] = true
		}
		if e.Tx&2 != 0 && r.inTx[e.W] {
			if err := c.Exec("commit"); err != nil {
				res.Violate("commit-failed", "commit failed: %v [%s]", err, r.h)
				return false
			}
			r.inTx[e.W] = false
			r.pending[e.W] = nil
		}
		if !accepted {
			r.pruned = "statement-without-effect"
			return false
		}
		if !r.inTx[e.W] {
			if d, err := engine.LiveDump(c.Tab); err == nil {
				r.versions = append(r.versions, d.Canon(true))
			}
		}
	case "r":
		if r.inTx[e.W] {
			r.pruned = "refresh-in-transaction"
			return false
		}
		n := len(r.heads())
		if e.P >= fact(n) {
			r.pruned = "permutation-out-of-range"
			return false
		}
		var err error
		r.withOrder(e.P, func() { err = r.cl[e.W].Refresh() })
		r.trans++
		if err != nil {
			res.Violate("refresh-failed", "refresh failed: %v [%s]", err, r.h)
			return false
		}
		for idx := range r.accepted {
			if !r.uncommitted(idx) {
				r.known[e.W][idx] = true
			}
		}
	case "m":
		n := len(r.heads())
		if e.P >= fact(n) || n < 2 {
			r.pruned = "merge-open-redundant"
			return false
		}
		var err error
		m := r.w.NewClient(fmt.Sprintf("m%d", i))
		r.withOrder(e.P, func() { err = m.Create(r.opts) })
		r.trans++
		m.Close()
		if err != nil {
			res.Violate("merge-open-failed", "merging open failed: %v [%s]", err, r.h)
			return false
		}
	}
	return true
}

func (r *hRun) uncommitted(idx int) bool {
	for _, p := range r.pending {
		for _, j := range p {
			if j == idx {
				return true
			}
		}
	}
	return false
}

// run executes the whole history; false = pruned or broken.
func (r *hRun) run(res *engine.Result) bool {
	for i, e := range r.h.Ev {
		if !r.step(i, e, res) {
			return false
		}
	}
	for w := range r.inTx {
		if r.inTx[w] {
			r.pruned = "open-transaction-at-end"
			return false
		}
	}
	return true
}

// readOnlyRows opens a fresh read-only client under permutation p and returns all rows.
func (r *hRun) readOnlyRows(name string, p int) (engine.Rows, error) {
	c := r.w.NewClient(name)
	defer c.Close()
	o := r.opts
	o.ReadOnly = true
	var err error
	r.withOrder(p, func() { err = c.Create(o) })
	r.trans++
	if err != nil {
		return nil, err
	}
	return c.Query(selAll)
}

// expected returns R-row over the base and the given accepted statements, plus the filler rows.
func (r *hRun) expected(sel func(idx int) bool) engine.Rows {
	st := baseStmts(r.h.Base)
	for idx, s := range r.accepted {
		if sel == nil || sel(idx) {
			st = append(st, s)
		}
	}
	rows := rrow(st)
	return append(rows, hFillerRows(r.h.Base, r.h.EPN)...)
}

// conflictShape abstracts the accepted statements to the shape of the conflict (for class keys):
// kinds in write-time order, with writer change markers.
func (r *hRun) conflictShape() string { return shapeOf(r.accepted) }

// shapeOf gives a coarse signature: statement kinds in write-time order (column lists abstracted away),
// number of writers involved (1 / multi) and whether execution order followed write-time order.
func shapeOf(accepted []aStmt) string {
	st := append([]aStmt{}, accepted...)
	sort.SliceStable(st, func(i, j int) bool { return st[i].Time < st[j].Time })
	var parts []string
	writers := map[int]bool{}
	for _, s := range st {
		k := "UPD"
		switch s.Kind {
		case kInsBC, kInsB:
			k = "INS"
		case kDel:
			k = "DEL"
		}
		parts = append(parts, k)
		writers[s.ByW] = true
	}
	order := "in-time-order"
	for i := 1; i < len(accepted); i++ {
		if accepted[i].Time < accepted[i-1].Time {
			order = "out-of-time-order"
		}
	}
	w := "1-writer"
	if len(writers) > 1 {
		w = "multi-writer"
	}
	return strings.Join(parts, "<") + "|" + w + "|" + order
}

// --- enumeration helpers ---------------------------------------------------------------------------

// writerSeqs enumerates canonical writer assignments (first use in order w1, w2, ...) of length n.
func writerSeqs(n, writers int) [][]int {
	var out [][]int
	cur := make([]int, n)
	var rec func(i, used int)
	rec = func(i, used int) {
		if i == n {
			out = append(out, append([]int{}, cur...))
			return
		}
		for w := 0; w <= used && w < writers; w++ {
			cur[i] = w
			nu := used
			if w == used {
				nu++
			}
			rec(i+1, nu)
		}
	}
	rec(0, 0)
	return out
}
