package checks

import (
	"encoding/json"
	"fmt"
	"sort"
	"strings"
	"time"

	"verif/engine"
)

// C03 — concurrent open and commit never hide or lose a committed version.
//
// Request-level scheduler (engine/sched.go): every interleaving of the visible object-store requests
// (LIST, and GET/PUT/DELETE under root/) and statement boundaries of 2-3 clients.  Each statement inserts
// a distinct tagged key, so the rows a client sees ARE the set of statements its view includes.

type c03Step struct {
	Op   string `json:"op"` // open-rw open-ro insert tx select refresh close
	Keys []int  `json:"keys,omitempty"`
}

type c03Prog struct {
	Name  string    `json:"name"`
	Steps []c03Step `json:"steps"`
	Clock int       `json:"clock"`
}

type c03Scen struct {
	Name    string
	Heads   [][]int // pre-existing unmerged heads (keys of each); one head = plain base
	PreOpen []string
	Progs   []c03Prog
	Retire  bool // enumerate both retire orders (2 parents)
	Tier    string
}

func c03Scenarios() []c03Scen {
	wr := func(name string, clock int, keys ...int) c03Prog {
		p := c03Prog{Name: name, Clock: clock, Steps: []c03Step{{Op: "open-rw"}}}
		for _, k := range keys {
			p.Steps = append(p.Steps, c03Step{Op: "insert", Keys: []int{k}})
		}
		p.Steps = append(p.Steps, c03Step{Op: "select"})
		return p
	}
	reader := func(name string, clock int) c03Prog {
		return c03Prog{Name: name, Clock: clock, Steps: []c03Step{{Op: "open-ro"}, {Op: "select"}}}
	}
	return []c03Scen{
		{Name: "S1 writer (2 autocommit inserts) || read-only opener", Heads: [][]int{{1, 2}}, Progs: []c03Prog{wr("w", 1000, 11, 12), reader("r", 2000)}},
		{Name: "S2 writer || read-write opener that then inserts", Heads: [][]int{{1, 2}}, Progs: []c03Prog{wr("w", 1000, 11, 12), wr("o", 2000, 21)}},
		{Name: "S3 two unmerged heads: merging read-write open || read-only opener", Heads: [][]int{{1}, {2}}, Retire: true, Progs: []c03Prog{{Name: "m", Clock: 1000, Steps: []c03Step{{Op: "open-rw"}, {Op: "select"}}}, reader("r", 2000)}},
		{Name: "S4 writer || s3db_refresh of a live table", Heads: [][]int{{1, 2}}, PreOpen: []string{"f"}, Progs: []c03Prog{wr("w", 1000, 11, 12), {Name: "f", Clock: 2000, Steps: []c03Step{{Op: "refresh"}, {Op: "select"}}}}},
		{Name: "S5 writer with a 2-statement transaction || read-only opener", Heads: [][]int{{1, 2}}, Progs: []c03Prog{{Name: "w", Clock: 1000, Steps: []c03Step{{Op: "open-rw"}, {Op: "tx", Keys: []int{31, 32}}, {Op: "insert", Keys: []int{13}}, {Op: "select"}}}, reader("r", 2000)}},
		{Name: "S6 two writers || read-only opener", Tier: "thorough", Heads: [][]int{{1, 2}}, Progs: []c03Prog{wr("w", 1000, 11), wr("x", 1500, 21), reader("r", 2000)}},
		{Name: "S7 writer || merging opener || read-only opener", Tier: "thorough", Heads: [][]int{{1}, {2}}, Progs: []c03Prog{wr("w", 1000, 11), {Name: "m", Clock: 1500, Steps: []c03Step{{Op: "open-rw"}, {Op: "select"}}}, reader("r", 2000)}},
		{Name: "S9 writer (3 autocommit inserts) || read-only opener that refreshes once", Heads: [][]int{{1, 2}}, Progs: []c03Prog{wr("w", 1000, 11, 12, 13), {Name: "r", Clock: 2000, Steps: []c03Step{{Op: "open-ro"}, {Op: "select"}, {Op: "refresh"}, {Op: "select"}}}}},
		{Name: "S8 writer || two successive read-only opens", Heads: [][]int{{1, 2}}, Progs: []c03Prog{wr("w", 1000, 11, 12), {Name: "r", Clock: 2000, Steps: []c03Step{{Op: "open-ro"}, {Op: "select"}, {Op: "close"}, {Op: "open-ro"}, {Op: "select"}}}}},
	}
}

type c03Case struct {
	Scen   int   `json:"scen"`
	Retire int   `json:"retire"` // 0 = ascending, 1 = descending retire order
	Prefix []int `json:"prefix,omitempty"`
	Bound  int   `json:"bound"` // preemption bound, -1 unbounded
	// FaultClient/FaultK: the FaultK-th visible request (LIST, anything under root/) of that client is answered
	// with a service error that is not "no such key" and has no effect; every interleaving is still explored.
	// The faulted client's open may fail; if it succeeds every oracle applies to it.
	FaultClient string `json:"fault_client,omitempty"`
	FaultK      int    `json:"fault_k,omitempty"`
	// VersionOracle (run by C11): every SELECT also records s3db_version(); after the execution the table is
	// re-opened restricted to exactly those versions and must show exactly the rows that SELECT returned
	VersionOracle bool `json:"version_oracle,omitempty"`
}

// c03Faults: which (scenario, client, number of fault positions) get the interleaving x single-fault product.
func c03Faults(thorough bool) map[int]map[string]int {
	m := map[int]map[string]int{0: {"r": 4, "w": 8}} // S1: the read-only opener and the committing writer
	if thorough {
		m[0] = map[string]int{"r": 4, "w": 8}
		m[1] = map[string]int{"o": 6} // S2: the read-write opener
		m[3] = map[string]int{"f": 4} // S4: the refreshing connection
		m[2] = map[string]int{"r": 4} // S3: reader next to a merging open
	}
	return m
}

func init() {
	All["C03"] = &Check{Level: "model_checking", Run: c03Run}
	engine.RegisterWorker("c03", c03Worker)
}

func c03Run(r *engine.Run) int {
	scen := c03Scenarios()
	r.Rule = "every interleaving, at the granularity of LIST and of GET/PUT/DELETE under root/ plus statement boundaries, of the clients of each scenario (depth-first search over schedules with global-state-key pruning; 3-client scenarios with iterative preemption bounding); retire order of two parents enumerated; oracle per execution: an open sees every statement acknowledged before its first request, only sets explainable by committed versions (per-writer prefixes, transactions atomic), and a fresh open after all clients finish sees every acknowledged statement. Non-trivial = execution with at least one preemption"
	var names []string
	for _, s := range scen {
		if s.Tier == "" || r.Thorough() {
			names = append(names, s.Name)
		}
	}
	r.Bounds["scenarios"] = names
	r.Assumptions = []string{"node objects are content-addressed and invisible until a version object refers to them, so node requests are not scheduling points (no vacuum in these scenarios)", "S3 strong consistency", "one request of a client at a time (mast's concurrent node PUTs belong to the running client)"}
	var cases []json.RawMessage
	for i, s := range scen {
		if s.Tier != "" && !r.Thorough() {
			continue
		}
		orders := 1
		if s.Retire {
			orders = 2
		}
		for o := 0; o < orders; o++ {
			bound := -1
			if len(s.Progs) > 2 {
				bound = -2 // iterative preemption bounding under a time budget
			}
			cases = append(cases, engine.J(c03Case{Scen: i, Retire: o, Bound: bound}))
			for cl, n := range c03Faults(r.Thorough())[i] {
				for k := 0; k < n; k++ {
					cases = append(cases, engine.J(c03Case{Scen: i, Retire: o, Bound: bound, FaultClient: cl, FaultK: k + 1}))
				}
			}
		}
	}
	r.Bounds["interleaving_x_single_fault"] = fmt.Sprint(c03Faults(r.Thorough()))
	engine.CaseTimeout = 45 * time.Minute // these cases run a whole schedule search under their own time budget
	engine.Map("c03", cases, func(i int, c json.RawMessage, res *engine.Result) {
		r.Add("c03", c, res)
		if res.Data != nil {
			var d map[string]interface{}
			json.Unmarshal(res.Data, &d)
			r.Sample(d)
			if d["complete"] == false {
				r.Exhaustive = false
			}
		}
	})
	return r.Vacuity(2, 20)
}

type c03Obs struct {
	Version    string // s3db_version() right after the SELECT (VersionOracle)
	VersionErr string
	Client     string
	Rows       []int
	AckAtStart []int
	Err        string
}

func c03Worker(raw json.RawMessage) *engine.Result {
	var c c03Case
	must(json.Unmarshal(raw, &c))
	res := &engine.Result{}
	sc := c03Scenarios()[c.Scen]
	var lastSched *engine.Sched
	outcomes := map[string]bool{}
	var sampleTrace []string
	mk := func(choices []int) *engine.Sched {
		return c03Build(sc, c, choices)
	}
	check := func(s *engine.Sched) {
		lastSched = s
		res.Execs++
		res.Trans += len(s.Taken)
		if s.Preemptions(len(s.Taken)) > 0 {
			res.NontrivN++
		}
		nv := len(res.Viol)
		c03Check(sc, c, s, res, outcomes)
		if len(res.Viol) > nv && len(s.Taken) > 0 {
			// the witness is this one schedule, not the whole search
			one := c
			one.Prefix = append([]int{}, s.Taken...)
			for i := nv; i < len(res.Viol); i++ {
				res.Viol[i].Case = engine.J(one)
			}
		}
		if sampleTrace == nil && s.Preemptions(len(s.Taken)) >= 2 {
			sampleTrace = append([]string{}, s.Labels...)
		}
		s.W.Close()
	}
	if len(c.Prefix) > 0 {
		// a recorded schedule: exactly this one execution (witness confirmation and replay)
		s := mk(c.Prefix)
		s.Execute()
		check(s)
		res.Data = engine.J(map[string]interface{}{"scenario": sc.Name, "single_schedule": true, "decisions": len(c.Prefix)})
		return res
	}
	var execs, pruned, states int
	complete := true
	boundDone := c.Bound
	if c.Bound == -2 {
		// iterative preemption bounding: 0, 1, 2, ... until the time budget; report the last bound completed
		deadline := time.Now().Add(8 * time.Minute)
		boundDone = -3
		for b := 0; b <= 12; b++ {
			e, p, st, ok := engine.Explore(mk, check, b, true, func() bool { return time.Now().After(deadline) })
			execs, pruned, states = execs+e, pruned+p, st
			if !ok {
				complete = false
				break
			}
			boundDone = b
		}
	} else {
		execs, pruned, states, complete = engine.Explore(mk, check, c.Bound, true, nil)
	}
	// determinism: replaying one recorded schedule twice must give identical traces and observations
	if lastSched != nil {
		var traces []string
		for i := 0; i < 2; i++ {
			s := c03Build(sc, c, lastSched.Taken)
			s.Execute()
			ex := c03Execs[s]
			delete(c03Execs, s)
			traces = append(traces, strings.Join(s.Labels, ";")+fmt.Sprint(ex.obs, ex.acked)+s.W.B.Hash())
			s.W.Close()
		}
		if traces[0] != traces[1] {
			res.Violate("harness-nondeterminism", "replaying the same schedule twice gives different traces:\n%s\n%s", traces[0], traces[1])
		}
	}
	for o := range outcomes {
		res.Outcomes = append(res.Outcomes, o)
	}
	for i := 0; i < states; i++ {
		res.States = append(res.States, fmt.Sprintf("%d/%d/%d", c.Scen, c.Retire, i))
	}
	res.Data = engine.J(map[string]interface{}{"scenario": sc.Name, "retire_order": c.Retire, "executions": execs, "pruned_executions": pruned, "distinct_states": states, "complete": complete, "preemption_bound_completed": boundDone, "distinct_observation_vectors": len(outcomes), "sample_schedule": sampleTrace})
	return res
}

// shared per execution
type c03Exec struct {
	faulted string // client whose request may fail
	fired   string // the request that failed
	failed  []int  // keys of statements that returned an error (the injected fault has no effect: they never happened)
	acked   []int
	obs     []c03Obs
	final   []int
	ferr    string
}

func c03Build(sc c03Scen, c c03Case, choices []int) *engine.Sched {
	w := engine.NewWorld()
	w.SetClock(engine.T(100))
	opts := engine.TableOpts{EPN: 4096}
	// pre-existing heads
	var hc []*engine.Client
	for i := range sc.Heads {
		x := w.NewClient(fmt.Sprintf("h%d", i))
		must(x.Create(opts))
		hc = append(hc, x)
	}
	for i, keys := range sc.Heads {
		must(hc[i].SetWriteTime(engine.T(110 + i)))
		must(hc[i].Exec("begin"))
		for _, k := range keys {
			must(hc[i].Exec("insert into {T} values(?,?,?)", k, "base", k))
		}
		must(hc[i].Exec("commit"))
		hc[i].Close()
	}
	pre := map[string]*engine.Client{}
	for _, n := range sc.PreOpen {
		x := w.NewClient(n)
		must(x.Create(opts))
		pre[n] = x
	}
	if sc.Retire {
		w.RetireOrder = func(s []string) []string {
			if c.Retire == 1 {
				out := append([]string{}, s...)
				sort.Sort(sort.Reverse(sort.StringSlice(out)))
				return out
			}
			return s
		}
	}
	ex := &c03Exec{}
	s := &engine.Sched{W: w, Choices: choices}
	if c.FaultClient != "" {
		n := 0
		w.Handle(c.FaultClient).Fault = func(rq *engine.Req) (engine.FaultMode, error) {
			if !engine.DefaultVisible(rq) {
				return engine.FaultNone, nil
			}
			n++
			if n == c.FaultK {
				ex.fired = rq.Op + " " + rq.Key
				return engine.FailBefore, engine.ErrAWS500()
			}
			return engine.FaultNone, nil
		}
		ex.faulted = c.FaultClient
	}
	s.OracleState = func() string {
		var parts []string
		for _, o := range ex.obs {
			parts = append(parts, fmt.Sprint(o.Client, o.Rows, o.AckAtStart, o.Err))
		}
		return fmt.Sprint(ex.acked, ex.failed, parts)
	}
	for _, p := range sc.Progs {
		p := p
		cl := &engine.SchedClient{Name: p.Name, Clock: &engine.Clock{}}
		cl.Clock.Set(engine.T(p.Clock))
		cl.Run = func(s *engine.Sched, me *engine.SchedClient) {
			var x *engine.Client
			if pc, ok := pre[p.Name]; ok {
				x = pc
			}
			var ackAtStart []int
			snap := false
			me.OnGrant = func(label string) {
				if snap && strings.HasPrefix(label, "LIST") {
					ackAtStart = append([]int{}, ex.acked...)
					snap = false
				}
			}
			openErr := ""
			for si, st := range p.Steps {
				s.Boundary(me, fmt.Sprintf("%s step %d %s", p.Name, si, st.Op))
				switch st.Op {
				case "open-rw", "open-ro":
					x = w.NewClient(p.Name)
					o := opts
					o.ReadOnly = st.Op == "open-ro"
					snap = true
					ackAtStart = append([]int{}, ex.acked...)
					if err := x.Create(o); err != nil {
						openErr = err.Error()
					}
					me.Observe("open err=%q", openErr)
				case "close":
					if x != nil {
						x.Close()
						x = nil
					}
				case "refresh":
					snap = true
					ackAtStart = append([]int{}, ex.acked...)
					if err := x.Refresh(); err != nil {
						openErr = err.Error()
					}
					me.Observe("refresh err=%q", openErr)
				case "insert":
					if x == nil || openErr != "" {
						continue
					}
					must(x.SetWriteTime(engine.T(p.Clock + 10*si)))
					err := x.Exec("insert into {T} values(?,?,?)", st.Keys[0], p.Name, si)
					me.Observe("insert %d err=%v", st.Keys[0], err != nil)
					if err == nil {
						ex.acked = append(ex.acked, st.Keys[0])
					} else {
						ex.failed = append(ex.failed, st.Keys[0])
					}
				case "tx":
					if x == nil || openErr != "" {
						continue
					}
					must(x.SetWriteTime(engine.T(p.Clock + 10*si)))
					must(x.Exec("begin"))
					for _, k := range st.Keys {
						must(x.Exec("insert into {T} values(?,?,?)", k, p.Name, si))
					}
					err := x.Exec("commit")
					me.Observe("tx err=%v", err != nil)
					if err == nil {
						ex.acked = append(ex.acked, st.Keys...)
					} else {
						ex.failed = append(ex.failed, st.Keys...)
						x.Exec("rollback")
					}
				case "select":
					o := c03Obs{Client: p.Name, AckAtStart: ackAtStart, Err: openErr}
					if x != nil && openErr == "" {
						rows, err := x.Query("select a from {T} order by a")
						if err != nil {
							o.Err = err.Error()
						}
						for _, r := range rows {
							var k int
							fmt.Sscanf(r, "i%d", &k)
							o.Rows = append(o.Rows, k)
						}
					}
					if c.VersionOracle && x != nil && openErr == "" && o.Err == "" {
						v, err := x.Version() // no storage request
						o.Version = v
						if err != nil {
							o.VersionErr = err.Error()
						}
						me.Observe("version %s %q", v, o.VersionErr)
					}
					me.Observe("select %v %q", o.Rows, o.Err)
					ex.obs = append(ex.obs, o)
				}
			}
		}
		s.Clients = append(s.Clients, cl)
	}
	s.W.Clients["__exec"] = nil
	delete(s.W.Clients, "__exec")
	c03Execs[s] = ex
	return s
}

var c03Execs = map[*engine.Sched]*c03Exec{}

func c03Check(sc c03Scen, c c03Case, s *engine.Sched, res *engine.Result, outcomes map[string]bool) {
	ex := c03Execs[s]
	delete(c03Execs, s)
	trace := func() string { return strings.Join(s.Labels, "\n    ") }
	where := sc.Name
	if ex.faulted != "" {
		where += fmt.Sprintf("; one request of %s fails with a 500: %q", ex.faulted, ex.fired)
	}
	if s.Deadlock {
		res.Violate("deadlock", "no client can make progress [%s]\n    %s", where, trace())
		return
	}
	if n, p := s.Panicked(); p != nil {
		res.Violate("client-panic:"+engine.NormalizePanic(fmt.Sprint(p)), "client %s panicked: %v [%s]\n    %s", n, p, where, trace())
		res.Poisoned = true
		return
	}
	base := map[int]bool{}
	for _, h := range sc.Heads {
		for _, k := range h {
			base[k] = true
		}
	}
	// statement structure: per writer program order, transactions
	type unit struct{ keys []int }
	progUnits := map[string][]unit{}
	for _, p := range sc.Progs {
		for _, st := range p.Steps {
			if st.Op == "insert" || st.Op == "tx" {
				progUnits[p.Name] = append(progUnits[p.Name], unit{st.Keys})
			}
		}
	}
	var vec []string
	for _, o := range ex.obs {
		vec = append(vec, fmt.Sprintf("%s%v", o.Client, o.Rows))
		if o.Err != "" && o.Client == ex.faulted && ex.fired != "" {
			continue // a request of this client failed: an error is the right answer
		}
		if o.Err != "" {
			res.Violate("open-or-select-fails", "client %s: %s [%s]\n    %s", o.Client, o.Err, where, trace())
			continue
		}
		seen := map[int]bool{}
		for _, k := range o.Rows {
			seen[k] = true
		}
		for k := range base {
			if !seen[k] {
				cls := "committed-base-hidden"
				if len(o.Rows) == 0 {
					cls = "empty-table-seen"
				}
				res.Violate(cls, "client %s sees %v: base row %d, committed long before, is missing [%s]\n    %s", o.Client, o.Rows, k, where, trace())
				break
			}
		}
		for _, k := range o.AckAtStart {
			if !seen[k] {
				res.Violate("acknowledged-commit-hidden", "client %s sees %v although the insert of %d was acknowledged before its open issued its first request [%s]\n    %s", o.Client, o.Rows, k, where, trace())
				break
			}
		}
		// explainable: per writer a prefix of its units, each unit whole. A statement that returned an error (its
		// request was the injected fault, which has no effect) never happened: it is no part of the prefix and
		// its rows must not be there
		failed := map[int]bool{}
		for _, k := range ex.failed {
			failed[k] = true
			if seen[k] {
				res.Violate("failed-statement-visible", "client %s sees %v: the statement inserting %d returned an error [%s]\n    %s", o.Client, o.Rows, k, where, trace())
			}
		}
		for wn, units := range progUnits {
			gap := false
			for _, u := range units {
				if len(u.keys) > 0 && failed[u.keys[0]] {
					continue
				}
				n := 0
				for _, k := range u.keys {
					if seen[k] {
						n++
					}
				}
				if n != 0 && n != len(u.keys) {
					res.Violate("transaction-partially-visible", "client %s sees %v: only part of %s's transaction %v [%s]\n    %s", o.Client, o.Rows, wn, u.keys, where, trace())
				}
				if n == 0 {
					gap = true
				} else if gap {
					res.Violate("unexplained-state", "client %s sees %v: a later statement of %s without an earlier one; no committed version explains that [%s]\n    %s", o.Client, o.Rows, wn, where, trace())
				}
			}
		}
		for k := range seen {
			known := base[k]
			for _, units := range progUnits {
				for _, u := range units {
					for _, x := range u.keys {
						if x == k {
							known = true
						}
					}
				}
			}
			if !known {
				res.Violate("unexplained-row", "client %s sees row %d that nobody wrote [%s]", o.Client, k, where)
			}
		}
	}
	w := s.W
	w.ClockFor = nil
	w.SetClock(engine.T(9000))
	if c.VersionOracle {
		// C11 under interleavings: the version names a connection reported identify exactly the rows it saw
		for _, o := range ex.obs {
			if o.Err != "" {
				continue
			}
			if o.VersionErr != "" {
				res.Violate("version-query-fails", "client %s: s3db_version fails: %s [%s]\n    %s", o.Client, o.VersionErr, where, trace())
				continue
			}
			var names []string
			if err := json.Unmarshal([]byte(o.Version), &names); err != nil {
				res.Violate("version-malformed", "client %s: s3db_version returned %q [%s]", o.Client, o.Version, where)
				continue
			}
			if len(names) == 0 {
				// no version at all denotes the empty table
				if len(o.Rows) > 0 {
					res.Violate("version-empty-although-rows-visible", "client %s saw rows %v but s3db_version() = %s [%s]\n    %s", o.Client, o.Rows, o.Version, where, trace())
				}
				continue
			}
			rows, err := openOnly(w, 4096, names)
			w.MakeCurrent()
			var got []int
			for _, r := range rows {
				var k int
				fmt.Sscanf(r, "i%d", &k)
				got = append(got, k)
			}
			if err != nil || fmt.Sprint(got) != fmt.Sprint(append([]int{}, o.Rows...)) {
				res.Violate("version-does-not-identify-visible-rows", "client %s saw rows %v and s3db_version() = %s; the table re-opened with exactly these versions shows %v (err %v) [%s]\n    %s", o.Client, o.Rows, o.Version, got, err, where, trace())
			}
		}
	}
	// a fresh open after everything finished contains every acknowledged statement
	f := w.NewClient("final")
	o := engine.TableOpts{EPN: 4096, ReadOnly: true}
	if err := f.Create(o); err != nil {
		res.Violate("final-open-fails", "%v [%s]\n    %s", err, where, trace())
		return
	}
	rows, _ := f.Query("select a from {T} order by a")
	seen := map[int]bool{}
	for _, r := range rows {
		var k int
		fmt.Sscanf(r, "i%d", &k)
		seen[k] = true
	}
	for k := range base {
		if !seen[k] {
			res.Violate("committed-row-lost-permanently", "after all clients finished a fresh open sees %v: base row %d is gone [%s]\n    %s", rows, k, where, trace())
			break
		}
	}
	for _, k := range ex.acked {
		if !seen[k] {
			res.Violate("acknowledged-commit-lost-permanently", "after all clients finished a fresh open sees %v: the acknowledged insert of %d is gone [%s]\n    %s", rows, k, where, trace())
			break
		}
	}
	if len(w.B.Broken) > 0 {
		res.Violate("store-invariant", "%v [%s]", w.B.Broken, where)
	}
	sort.Strings(vec)
	if ex.fired != "" {
		vec = append(vec, "fault@"+strings.Fields(ex.fired)[0])
	}
	outcomes[strings.Join(vec, " ")] = true
}
