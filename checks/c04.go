package checks

import (
	"encoding/json"
	"fmt"
	"strings"

	"verif/engine"
)

// C04 — a crash at any point of a commit leaves old or new contents, never a mixture.
//
// For each scenario (committed prefix x transaction T) T runs once against a recording handle; every
// down-closed subset of its mutation log (engine/crash.go) is applied to the pre-state and recovered by
// the real code: read-only opens under every permutation of the heads, then a read-write open (merge +
// commit) and another read-only open; in the thorough tier the recovery's own merge-commit is cut again.

type c04Case struct {
	Scen   int  `json:"scen"`
	Shard  int  `json:"shard"`
	Shards int  `json:"shards"`
	Deep   bool `json:"deep,omitempty"`
}

type c04Scenario struct {
	Name  string
	EPN   int
	Build func(w *engine.World) // committed prefix
	// Run executes T on client "t" (already created unless OpenIsT) and reports whether it was acknowledged.
	Run       func(w *engine.World, t *engine.Client) error
	OpenIsT   bool // T is the read-write open itself
	SameRows  bool // T must not change the rows (vacuum, merge-only)
	PreOpenT  bool // client t is opened before Build's last step (so that it is based on an older head)
	PreOpenAt int
}

func c04Writer(w *engine.World, name string, epn int, f func(c *engine.Client)) {
	c := w.NewClient(name)
	must(c.Create(engine.TableOpts{EPN: epn}))
	f(c)
	c.Close()
}

func c04Insert(c *engine.Client, t int, keys ...int) {
	must(c.SetWriteTime(engine.T(t)))
	must(c.Exec("begin"))
	for _, k := range keys {
		must(c.Exec("insert into {T} values(?,?,?)", k, fmt.Sprintf("b%d", k), k))
	}
	must(c.Exec("commit"))
}

func c04Scenarios() []c04Scenario {
	twoHeads := func(epn int) func(w *engine.World) {
		return func(w *engine.World) {
			a := w.NewClient("a")
			must(a.Create(engine.TableOpts{EPN: epn}))
			b := w.NewClient("b")
			must(b.Create(engine.TableOpts{EPN: epn}))
			c04Insert(a, 100, 1, 2, 3)
			c04Insert(b, 110, 4, 5)
			must(b.SetWriteTime(engine.T(120)))
			must(b.Exec("update {T} set b='bu' where a=4"))
			a.Close()
			b.Close()
		}
	}
	threeHeads := func(w *engine.World) {
		var cs []*engine.Client
		for i := 0; i < 3; i++ {
			c := w.NewClient(fmt.Sprintf("h%d", i))
			must(c.Create(engine.TableOpts{EPN: 4096}))
			cs = append(cs, c)
		}
		for i, c := range cs {
			c04Insert(c, 100+10*i, 10*i+1, 10*i+2)
			c.Close()
		}
	}
	history := func(epn int) func(w *engine.World) {
		return func(w *engine.World) {
			// several versions incl. a deleted row and a row that returns to earlier content
			for i, f := range []func(c *engine.Client){
				func(c *engine.Client) { c04Insert(c, 100, 1, 2, 3, 4, 5, 6, 7, 8, 9) },
				func(c *engine.Client) {
					must(c.SetWriteTime(engine.T(200)))
					must(c.Exec("delete from {T} where a=2"))
				},
				func(c *engine.Client) { c04Insert(c, 300, 20) },
				func(c *engine.Client) {
					must(c.SetWriteTime(engine.T(400)))
					must(c.Exec("delete from {T} where a=20"))
				},
				func(c *engine.Client) {
					must(c.SetWriteTime(engine.T(500)))
					must(c.Exec("update {T} set b='u' where a=5"))
				},
			} {
				w.SetClock(engine.T(100 + 100*i))
				c04Writer(w, fmt.Sprintf("hw%d", i), epn, f)
			}
			w.SetClock(engine.T(1000))
		}
	}
	vacuum := func(cut int) func(w *engine.World, t *engine.Client) error {
		return func(w *engine.World, t *engine.Client) error {
			verr, err := t.Vacuum(engine.T(cut))
			if err != nil {
				return err
			}
			if verr != "" {
				return fmt.Errorf("vacuum_error: %s", verr)
			}
			return nil
		}
	}
	return []c04Scenario{
		{Name: "empty; INSERT", EPN: 4096, Build: func(w *engine.World) {}, Run: func(w *engine.World, t *engine.Client) error {
			must(t.SetWriteTime(engine.T(100)))
			return t.Exec("insert into {T} values(1,'x',1)")
		}},
		{Name: "one version; BEGIN INSERT UPDATE DELETE COMMIT", EPN: 4096, Build: func(w *engine.World) {
			c04Writer(w, "a", 4096, func(c *engine.Client) { c04Insert(c, 100, 1, 2, 3) })
		}, Run: func(w *engine.World, t *engine.Client) error {
			must(t.SetWriteTime(engine.T(200)))
			must(t.Exec("begin"))
			must(t.Exec("insert into {T} values(7,'n',7)"))
			must(t.Exec("update {T} set b='u' where a=1"))
			must(t.Exec("delete from {T} where a=2"))
			return t.Exec("commit")
		}},
		{Name: "two unmerged heads; read-write open merges", EPN: 4096, Build: twoHeads(4096), OpenIsT: true, SameRows: true},
		{Name: "three unmerged heads; read-write open merges", EPN: 4096, Build: threeHeads, OpenIsT: true, SameRows: true},
		{Name: "two unmerged heads, multi-level; read-write open merges", EPN: 2, Build: twoHeads(2), OpenIsT: true, SameRows: true},
		{Name: "two unmerged heads; s3db_refresh merges", EPN: 4096, Build: twoHeads(4096), PreOpenT: true, SameRows: true, Run: func(w *engine.World, t *engine.Client) error {
			return t.Refresh()
		}},
		{Name: "two unmerged heads; INSERT by a writer based on neither", EPN: 4096, Build: twoHeads(4096), PreOpenT: true, Run: func(w *engine.World, t *engine.Client) error {
			must(t.SetWriteTime(engine.T(300)))
			return t.Exec("insert into {T} values(9,'n',9)")
		}},
		{Name: "history with deleted rows; INSERT", EPN: 4096, Build: history(4096), Run: func(w *engine.World, t *engine.Client) error {
			must(t.SetWriteTime(engine.T(900)))
			return t.Exec("insert into {T} values(2,'again',2)")
		}},
		{Name: "multi-level tree; transaction with several inserts", EPN: 2, Build: history(2), Run: func(w *engine.World, t *engine.Client) error {
			must(t.SetWriteTime(engine.T(900)))
			must(t.Exec("begin"))
			for _, k := range []int{30, 31, 32, 33} {
				must(t.Exec("insert into {T} values(?,?,?)", k, "n", k))
			}
			must(t.Exec("delete from {T} where a=1"))
			return t.Exec("commit")
		}},
		{Name: "row with a newer entry time; transaction with an OLDER write time updates another column and inserts a row", EPN: 4096, Build: func(w *engine.World) {
			c04Writer(w, "a", 4096, func(c *engine.Client) {
				must(c.SetWriteTime(engine.T(100)))
				must(c.Exec("insert into {T} values(1,'b0','c0')"))
				must(c.SetWriteTime(engine.T(300)))
				must(c.Exec("update {T} set b='b2' where a=1"))
			})
		}, Run: func(w *engine.World, t *engine.Client) error {
			must(t.SetWriteTime(engine.T(200)))
			must(t.Exec("begin"))
			must(t.Exec("update {T} set c='c1' where a=1"))
			must(t.Exec("insert into {T} values(2,'x','y')"))
			return t.Exec("commit")
		}},
		{Name: "history; vacuum cutoff before everything", EPN: 4096, Build: history(4096), SameRows: true, Run: vacuum(50)},
		{Name: "history; vacuum cutoff in the middle", EPN: 4096, Build: history(4096), SameRows: true, Run: vacuum(350)},
		{Name: "history; vacuum cutoff after everything", EPN: 4096, Build: history(4096), SameRows: true, Run: vacuum(5000)},
		{Name: "multi-level history; vacuum cutoff in the middle", EPN: 2, Build: history(2), SameRows: true, Run: vacuum(350)},
		{Name: "multi-level history; vacuum cutoff after everything", EPN: 2, Build: history(2), SameRows: true, Run: vacuum(5000)},
	}
}

func init() {
	All["C04"] = &Check{Level: "fault_enumeration", Run: c04Run}
	engine.RegisterWorker("c04", c04Worker)
}

func c04Run(r *engine.Run) int {
	scen := c04Scenarios()
	r.Rule = "for each scenario (committed prefix x transaction) every down-closed subset of the transaction's mutation log (node PUT bursts, vacuum's DELETE sets and retire chains of different parents unordered; everything else in program order) is a crash state; each is recovered by read-only opens under every head permutation, a read-write open and another read-only open (thorough: the recovery's own commit is cut again). Non-trivial = cut strictly inside the log"
	var names []string
	for _, s := range scen {
		names = append(names, s.Name)
	}
	r.Bounds["scenarios"] = names
	r.Assumptions = []string{"S3 semantics: atomic objects, no torn writes, a request that was in flight either took effect or did not", "requests issued concurrently by one commit (node PUTs) may land in any subset; sequential requests land in order"}
	var cases []json.RawMessage
	shards := 8
	if r.Thorough() {
		shards = 32
	}
	for i := range scen {
		for s := 0; s < shards; s++ {
			cases = append(cases, engine.J(c04Case{Scen: i, Shard: s, Shards: shards, Deep: r.Thorough()}))
		}
	}
	shapes := map[string]string{}
	engine.Map("c04", cases, func(i int, c json.RawMessage, res *engine.Result) {
		r.Add("c04", c, res)
		if res.Data != nil {
			var d map[string]interface{}
			if json.Unmarshal(res.Data, &d) == nil {
				if n, ok := d["scenario"].(string); ok {
					shapes[n] = fmt.Sprint(d["log_shape"], " cuts=", d["cuts"], " exhaustive=", d["exhaustive"])
					if d["exhaustive"] == false {
						r.Exhaustive = false
					}
				}
				if i%8 == 0 {
					r.Sample(d)
				}
			}
		}
	})
	r.Extra["log_shapes"] = shapes
	return r.Vacuity(2, 50)
}

func c04Worker(raw json.RawMessage) *engine.Result {
	var c c04Case
	must(json.Unmarshal(raw, &c))
	res := &engine.Result{}
	sc := c04Scenarios()[c.Scen]
	opts := engine.TableOpts{EPN: sc.EPN}
	// 1. build the prefix and record T
	w := engine.NewWorld()
	w.SetClock(engine.T(50))
	var t *engine.Client
	if sc.PreOpenT {
		t = w.NewClient("t")
		must(t.Create(opts))
	}
	sc.Build(w)
	w.SetClock(engine.T(2000))
	if !sc.OpenIsT && !sc.PreOpenT {
		t = w.NewClient("t")
		must(t.Create(opts))
	}
	pre := w.B.Snapshot()
	before, err := c04Rows(pre, opts, 0)
	if err != nil {
		res.Violate("harness", "cannot read the pre-state: %v [%s]", err, sc.Name)
		return res
	}
	w.MakeCurrent()
	mark := w.B.LogLen()
	var terr error
	if sc.OpenIsT {
		t = w.NewClient("t")
		terr = t.Create(opts)
	} else {
		terr = sc.Run(w, t)
	}
	if terr != nil {
		res.Violate("transaction-failed", "fault-free run of the transaction failed: %v [%s]", terr, sc.Name)
		w.Close()
		return res
	}
	log := engine.Mutations(w.B.LogSince(mark))
	post := w.B.Snapshot()
	w.Close()
	after, err := c04Rows(post, opts, 0)
	if err != nil {
		res.Violate("acknowledged-state-unreadable", "after the acknowledged transaction a new open fails: %v [%s]", err, sc.Name)
		return res
	}
	if sc.SameRows && !after.Equal(before) {
		res.Violate("maintenance-changes-rows", "rows before %v, after %v [%s]", before, after, sc.Name)
	}
	if c.Deep {
		engine.CutCap = 1 << 17
	}
	cuts, exhaustive := engine.Cuts(log)
	shape := engine.Shape(log)
	// 2. every cut of this shard
	for ci, cut := range cuts {
		if ci%c.Shards != c.Shard {
			continue
		}
		where := fmt.Sprintf("%s; log [%s]; crash after applying %v of %d mutations", sc.Name, shape, cut, len(log))
		objs := engine.ApplyCut(pre, log, cut)
		complete := len(cut) == len(log)
		inside := len(cut) > 0 && !complete
		c04Recover(res, objs, opts, before, after, complete, where, c04CutClass(log, cut), c.Deep, 1)
		res.Execs++
		if inside {
			res.NontrivN++
		}
	}
	res.Data = engine.J(map[string]interface{}{"scenario": sc.Name, "log_shape": shape, "mutations": len(log), "cuts": len(cuts), "exhaustive": exhaustive, "rows_before": len(before), "rows_after": len(after)})
	return res
}

// c04CutClass names the phase the crash falls in (for class keys).
func c04CutClass(log []engine.Mutation, cut []int) string {
	if len(cut) == 0 {
		return "before-first-write"
	}
	if len(cut) == len(log) {
		return "complete"
	}
	in := map[int]bool{}
	for _, i := range cut {
		in[i] = true
	}
	// first missing mutation
	for i, m := range log {
		if !in[i] {
			switch {
			case strings.Contains(m.Key, "/node/") && m.Op == "PUT":
				return "during-node-puts"
			case strings.Contains(m.Key, "/root/current/") && m.Op == "PUT":
				return "before-version-put"
			case strings.Contains(m.Key, "/root/merged/") && m.Op == "PUT":
				return "during-retire"
			case strings.Contains(m.Key, "/root/current/") && m.Op == "DELETE":
				return "during-retire"
			case strings.Contains(m.Key, "/node/") && m.Op == "DELETE":
				return "during-vacuum-node-deletes"
			case strings.Contains(m.Key, "/root/merged/") && m.Op == "DELETE":
				return "during-vacuum-version-deletes"
			}
		}
	}
	return "other"
}

// c04Rows opens the bucket state read-only under permutation p and returns the rows.
func c04Rows(objs map[string][]byte, opts engine.TableOpts, p int) (engine.Rows, error) {
	w := engine.NewWorldOn(engine.NewBucketFrom(objs))
	defer w.Close()
	w.SetClock(engine.T(3000))
	w.RootOrder = func(s []string) []string {
		ps := perms(len(s))
		if p < len(ps) {
			return applyPerm(s, ps[p])
		}
		return s
	}
	c := w.NewClient("rec")
	o := opts
	o.ReadOnly = true
	if err := c.Create(o); err != nil {
		return nil, err
	}
	return c.Query(selAll)
}

func c04Recover(res *engine.Result, objs map[string][]byte, opts engine.TableOpts, before, after engine.Rows, complete bool, where, phase string, deep bool, level int) {
	cur, _ := engine.Versions(objs, engine.TableLayout("p"))
	nperm := fact(len(cur))
	if nperm > 24 {
		nperm = 24
	}
	if nperm == 0 {
		nperm = 1
	}
	var first engine.Rows
	for p := 0; p < nperm; p++ {
		rows, err := c04Rows(objs, opts, p)
		res.Trans++
		if err != nil {
			res.Violate("recovery-open-fails:"+phase, "read-only open after the crash fails: %v [%s]", err, where)
			return
		}
		if p == 0 {
			first = rows
		} else if !rows.Equal(first) {
			res.Violate("recovery-order-dependent:"+phase, "read-only opens after the crash see %v or %v depending on the merge order [%s]", first, rows, where)
			return
		}
	}
	okBefore, okAfter := first.Equal(before), first.Equal(after)
	res.Outcomes = append(res.Outcomes, fmt.Sprintf("%s:before=%v,after=%v", phase, okBefore, okAfter))
	if complete && !okAfter {
		res.Violate("acknowledged-commit-lost", "the transaction was acknowledged but a later open shows %v instead of %v [%s]", first, after, where)
		return
	}
	if !okBefore && !okAfter {
		res.Violate("mixture-after-crash:"+phase, "after the crash the table shows %s, neither the contents before the transaction nor those after it [%s]", engine.Diff(before, first), where)
		return
	}
	// read-write recovery (merge + commit), then a fresh read-only open
	w := engine.NewWorldOn(engine.NewBucketFrom(objs))
	w.SetClock(engine.T(4000 + 1000*level))
	rw := w.NewClient("rw")
	mark := w.B.LogLen()
	if err := rw.Create(opts); err != nil {
		res.Violate("recovery-rw-open-fails:"+phase, "read-write open after the crash fails: %v [%s]", err, where)
		w.Close()
		return
	}
	res.Trans++
	rows, err := rw.Query(selAll)
	if err != nil || !rows.Equal(first) {
		res.Violate("recovery-rw-rows:"+phase, "read-write recovery shows %v (err %v), the read-only one %v [%s]", rows, err, first, where)
	}
	// the recovered table is writable
	must(rw.SetWriteTime(engine.T(9000)))
	if err := rw.Exec("insert into {T} values(777,'post-crash',1)"); err != nil {
		res.Violate("recovery-not-writable:"+phase, "INSERT after recovery fails: %v [%s]", err, where)
	}
	recLog := engine.Mutations(w.B.LogSince(mark))
	recPre := objs
	objs2 := w.B.Snapshot()
	w.Close()
	rows2, err := c04Rows(objs2, opts, 0)
	want := append(append(engine.Rows{}, first...), "i777|t'post-crash'|i1")
	if err != nil || !rows2.Sorted().Equal(want.Sorted()) {
		res.Violate("recovery-then-write:"+phase, "after recovery + INSERT a new open shows %v (err %v), want %v [%s]", rows2, err, want, where)
	}
	if deep && level == 1 && len(recLog) > 0 {
		// crash again inside the recovery's own commit(s)
		cuts, _ := engine.Cuts(recLog)
		for _, cut := range cuts {
			if len(cut) == 0 || len(cut) == len(recLog) {
				continue
			}
			o := engine.ApplyCut(recPre, recLog, cut)
			with := append(append(engine.Rows{}, first...), "i777|t'post-crash'|i1")
			r2, err := c04Rows(o, opts, 0)
			res.Execs++
			res.NontrivN++
			if err != nil {
				res.Violate("second-crash-open-fails:"+phase, "open after a second crash (inside the recovery) fails: %v [%s; second cut %v of %d]", err, where, cut, len(recLog))
				continue
			}
			if !r2.Equal(first) && !r2.Sorted().Equal(with.Sorted()) {
				res.Violate("second-crash-mixture:"+phase, "after a second crash inside the recovery the table shows %v, want %v or %v [%s; second cut %v]", r2, first, with, where, cut)
			}
		}
	}
}
