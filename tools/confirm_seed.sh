#!/bin/bash
# tools/confirm_seed.sh <PROP> <A|B> <demo-file-in-_out> <package-dir-in-worktree> <go-test-run-regex> [checks...]
# Confirms an independently written property-breaking change in its scratch worktree (/tmp/seed/<PROP>):
#   (a) repo tests pass with the change, (b) the demonstration fails with it, (c) passes without it;
# then applies it to /repo, runs the given quick checks (default: the property's own), undoes it, and stores
# everything under /verif/seeded/<PROP>-<X>/.
set -u
prop=$1; x=$2; demo=$3; pkg=$4; rx=$5; shift 5
checks=${*:-$prop}
wt=${SEEDDIR:-/tmp/seed}/$prop; out=$wt/_out/$x
export GOFLAGS=-mod=mod GOPROXY=off
cd $wt || exit 2
git checkout -q -- . ; git clean -fdq -e _out
git apply $out/patch.diff || { echo "patch does not apply"; exit 2; }
go build ./... 2>&1 | tail -3
if go test -vet=off -count=1 ./... > ${SEEDDIR:-/tmp/seed}/$prop.$x.suite 2>&1; then a=pass; else a=FAIL; fi
cp $out/$demo $pkg/zz_seed_demo_test.go
if go test -vet=off -count=1 -run "$rx" ./$pkg > ${SEEDDIR:-/tmp/seed}/$prop.$x.with 2>&1; then b=pass; else b=fail; fi
git apply -R $out/patch.diff
if go test -vet=off -count=1 -run "$rx" ./$pkg > ${SEEDDIR:-/tmp/seed}/$prop.$x.without 2>&1; then c=pass; else c=FAIL; fi
rm -f $pkg/zz_seed_demo_test.go
git checkout -q -- . ; git clean -fdq -e _out
echo "(a) suite with change: $a   (b) demo with change: $b   (c) demo without change: $c"
ok=no; if [ $a = pass ] && [ $b = fail ] && [ $c = pass ]; then ok=yes; fi
# my checks
cd /repo; if [ -n "$(git status --porcelain)" ]; then echo "/repo not clean"; exit 2; fi
git apply $out/patch.diff || { echo "patch does not apply to /repo"; exit 2; }
cd /verif
results=""
for p in $checks; do
  o=$(./check $p quick 2>&1); code=$?
  n=$(echo "$o" | grep -c "^VIOLATION")
  if [ $code -eq 1 ] && [ $n -gt 0 ]; then r="caught($n): $(echo "$o" | grep -A1 '^VIOLATION' | sed -n 2p | sed 's/^ *//' | cut -c1-120)"; else r="missed(exit $code)"; fi
  echo "$p: $r"
  results="$results\"$p\": \"$(echo $r | sed 's/"/\\"/g')\", "
done
git -C /repo checkout -q -- . ; git -C /repo clean -fdq
d=/verif/seeded/$prop-${TAG:-}$x; mkdir -p $d
cp $out/patch.diff $d/; cp $out/$demo $d/; cp $out/README.md $d/README.md 2>/dev/null
cat > $d/meta.json <<EOM
{
 "property": "$prop",
 "origin": "independent sub-agent given only the property text and its own worktree of /repo HEAD $(git -C /repo rev-parse --short HEAD)",
 "demo": {"file": "$demo", "place_in_package_dir": "$pkg", "run": "go test -vet=off -count=1 -run '$rx' ./$pkg"},
 "confirmed": {"suite_with_change": "$a", "demo_with_change": "$b", "demo_without_change": "$c", "valid": "$ok"},
 "checks_quick": { ${results%, } },
 "needs_to_manifest": "see README.md"
}
EOM
echo "stored in $d (valid=$ok)"
