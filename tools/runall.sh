#!/bin/bash
# tools/runall.sh [tier] — run every claimed check of MANIFEST.json and print one line each
cd /verif
tier=${1:-quick}
for p in $(python3 -c "import json;print(' '.join(c['property_id'] for c in json.load(open('MANIFEST.json'))['checks']))"); do
  out=$(./check $p $tier 2>&1); code=$?
  echo "exit=$code $(echo "$out" | tail -1)"
  echo "$out" | grep "^VIOLATION\|HARNESS" | head -5
done
