#!/bin/bash
# tools/trymut.sh <patch> <PROP> [PROP...]  — apply a seeded property-breaking patch to /repo, check that the repo's own
# tests still pass, run the given quick checks, and undo the patch. Prints CAUGHT/MISSED per property.
set -u
patch=$(readlink -f "$1"); shift
cd /repo || exit 2
if [ -n "$(git status --porcelain)" ]; then echo "/repo not clean"; exit 2; fi
git apply "$patch" || { echo "patch does not apply"; exit 2; }
trap 'git -C /repo checkout -- . ; git -C /repo clean -fdq' EXIT
export GOFLAGS=-mod=mod GOPROXY=off
if [ -z "${SKIP_TESTS:-}" ]; then
  if go test -vet=off -count=1 ./... >/tmp/trymut.$$ 2>&1; then echo "repo tests: PASS (mutant survives the suite)"; else echo "repo tests: FAIL (mutant not interesting)"; grep -v "^ok\|no test files" /tmp/trymut.$$ | head -20; fi
  rm -f /tmp/trymut.$$
fi
cd /verif
for p in "$@"; do
  out=$(VERIF_NOCONFIRM=${NOCONFIRM:-} ./check "$p" "${TIER:-quick}" 2>&1); code=$?
  n=$(echo "$out" | grep -c "^VIOLATION")
  if [ $code -eq 1 ] && [ "$n" -gt 0 ]; then echo "$p: CAUGHT ($n classes) e.g. $(echo "$out" | grep -A1 "^VIOLATION" | sed -n 2p | cut -c1-160)";
  else echo "$p: MISSED (exit $code)"; echo "$out" | tail -3 | cut -c1-300; fi
done
