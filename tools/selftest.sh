#!/bin/bash
# tools/selftest.sh — run every seeded property-breaking change (mutants/*.patch and seeded/*/patch*.diff) against
# the quick check(s) of the property it breaks and print CAUGHT / MISSED. /repo must be clean; it is restored
# after every change. Takes about an hour on a free machine.
cd /verif
export SKIP_TESTS=1
for p in mutants/*.patch; do
  prop=$(basename $p | cut -c1-3 | tr a-z A-Z)
  echo "== $p -> $prop"; tools/trymut.sh $p $prop 2>&1 | tail -1 | cut -c1-200
done
for d in seeded/*/; do
  n=$(basename $d); prop=${n%%-*}
  patch=$d/patch.diff; [ -f $d/patch.ported.diff ] && patch=$d/patch.ported.diff
  [ $n = C10-B ] && { echo "== $n: not alarmed on purpose (see meta.json)"; continue; }
  # changes that break another property than the one they were written for (DESIGN.md 13.1, 13.2)
  case $n in
    C11-B) prop=C03;; C02-R2B) prop=C15;; C04-R2B) prop=C16;; C05-R2A) prop=C03;; C10-R2B) prop=C14;;
    C11-R2A|C16-R2A|C16-R2B|C15-R3A|C04-R4A) prop=C05;; C15-R3B) prop=C02;;
    C03-R4B) prop=C14;; C04-R4B) prop=C03;; C16-R4A|C16-R4B) prop=C09;;
  esac
  echo "== $n -> $prop"; tools/trymut.sh $patch $prop 2>&1 | tail -1 | cut -c1-200
done
