#!/bin/bash
# tools/recheck_seed.sh <seeded-dir-name> <checks...> — re-run quick checks against a stored seeded change and record
# the result in its meta.json under checks_quick_after_strengthening
d=/verif/seeded/$1; shift
patch=$d/patch.diff; [ -f $d/patch.ported.diff ] && patch=$d/patch.ported.diff
cd /repo; if [ -n "$(git status --porcelain)" ]; then echo "/repo not clean"; exit 2; fi
git apply $patch || exit 2
cd /verif
for p in "$@"; do
  o=$(./check $p quick 2>&1); code=$?
  n=$(echo "$o" | grep -c "^VIOLATION")
  if [ $code -eq 1 ] && [ $n -gt 0 ]; then r="caught($n): $(echo "$o" | grep -A1 '^VIOLATION' | sed -n 2p | sed 's/^ *//' | cut -c1-120)"; else r="missed(exit $code)"; fi
  echo "$(basename $d) $p: $r"
  python3 - "$d/meta.json" "$p" "$r" <<'PY'
import json,sys
p,prop,r=sys.argv[1:4]
m=json.load(open(p)); m.setdefault('checks_quick_after_strengthening',{})[prop]=r
json.dump(m,open(p,'w'),indent=1)
PY
done
git -C /repo checkout -q -- . ; git -C /repo clean -fdq
